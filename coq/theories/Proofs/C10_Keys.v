(* C10 — named keys across a stop: the keystore only ever grows by names that were missing, so whatever
   an operation returned before a stop it returns again after the restart, whatever happened in between. *)
From Coq Require Import List NArith Bool Lia.
From Wesh Require Import Model.C11_Keys Proofs.C11_Keys Model.C10_Keys.
Import ListNotations.
Open Scope N_scope.

Lemma extends_refl st : extends st st.
Proof. intros n k H. exact H. Qed.
Lemma extends_trans a b c : extends a b -> extends b c -> extends a c.
Proof. intros H1 H2 n k H. apply H2, H1, H. Qed.

Lemma extends_cons st n k nx :
  lookup n (ks st) = None -> extends st {| ks := (n, k) :: ks st; next := nx |}.
Proof.
  intros Hn m v Hm. cbn [ks]. rewrite lookup_cons. destruct (name_eqb n m) eqn:E; [|exact Hm].
  apply name_eqb_eq in E. subst m. congruence.
Qed.

Lemma gen_extends st n : extends st (fst (get_or_generate st n)).
Proof.
  unfold get_or_generate. destruct (lookup n (ks st)) eqn:E; cbn [fst]; [apply extends_refl|].
  apply extends_cons. exact E.
Qed.
Lemma agree_extends st n pub own : extends st (fst (get_or_agree st n pub own)).
Proof.
  unfold get_or_agree. destruct (lookup n (ks st)) eqn:E; cbn [fst]; [apply extends_refl|].
  apply extends_cons. exact E.
Qed.

(* after a get-or-create the name is there, with the value returned *)
Lemma gen_present st n : lookup n (ks (fst (get_or_generate st n))) = Some (snd (get_or_generate st n)).
Proof.
  unfold get_or_generate. destruct (lookup n (ks st)) eqn:E; cbn [fst snd ks]; [exact E|].
  rewrite lookup_cons, name_eqb_refl. reflexivity.
Qed.
Lemma agree_present st n pub own : lookup n (ks (fst (get_or_agree st n pub own))) = Some (snd (get_or_agree st n pub own)).
Proof.
  unfold get_or_agree. destruct (lookup n (ks st)) eqn:E; cbn [fst snd ks]; [exact E|].
  rewrite lookup_cons, name_eqb_refl. reflexivity.
Qed.
(* on a store that already holds the name, a get-or-create is a read *)
Lemma gen_read st n k : lookup n (ks st) = Some k -> get_or_generate st n = (st, k).
Proof. intros H. unfold get_or_generate. rewrite H. reflexivity. Qed.
Lemma agree_read st n pub own k : lookup n (ks st) = Some k -> get_or_agree st n pub own = (st, k).
Proof. intros H. unfold get_or_agree. rewrite H. reflexivity. Qed.

(* every state a stop can leave behind extends the state before the operation, and the completed
   operation extends every one of them *)
Lemma kstates_between st o c :
  In c (kstates st o) -> extends st c /\ (is_import o = false -> extends c (fst (kstep st o))).
Proof.
  destruct o as [| |b|kind g| |ba bp]; cbn [kstates kstep is_import].
  - destruct (get_or_generate st NAccount) as [st1 k] eqn:E1.
    assert (X1 := gen_extends st NAccount). rewrite E1 in X1. cbn [fst] in *.
    intros [<-|[<-|[]]]; split; auto using extends_refl.
  - destruct (get_or_generate st NProof) as [st1 k] eqn:E1.
    assert (X1 := gen_extends st NProof). rewrite E1 in X1. cbn [fst] in *.
    intros [<-|[<-|[]]]; split; auto using extends_refl.
  - destruct (get_or_generate st NAccount) as [st1 a] eqn:E1.
    assert (X1 := gen_extends st NAccount). rewrite E1 in X1. cbn [fst] in X1.
    assert (X2 := agree_extends st1 (NContact b) b a).
    destruct (get_or_agree st1 (NContact b) b a) as [st2 k] eqn:E2. cbn [fst] in *.
    intros [<-|[<-|[<-|[]]]]; split; eauto using extends_refl, extends_trans.
  - destruct kind.
    + assert (X1 := gen_extends st NAccount). set (st1 := fst (get_or_generate st NAccount)) in *.
      assert (X2 := gen_extends st1 NProof). set (st2 := fst (get_or_generate st1 NProof)) in *.
      assert (X3 := gen_extends st2 NDevice).
      assert (Ek : fst (let '(s1, a) := get_or_generate st NAccount in
                        let '(s2, _) := get_or_generate s1 NProof in
                        let '(s3, d) := get_or_generate s2 NDevice in (s3, RPair a d)) = fst (get_or_generate st2 NDevice)).
      { subst st2 st1. destruct (get_or_generate st NAccount) as [s1 a]. cbn [fst].
        destruct (get_or_generate s1 NProof) as [s2 p]. cbn [fst].
        destruct (get_or_generate s2 NDevice) as [s3 d]. reflexivity. }
      rewrite Ek.
      intros [<-|[<-|[<-|[<-|[]]]]]; split; eauto using extends_refl, extends_trans.
    + assert (X1 := gen_extends st NAccount). set (st1 := fst (get_or_generate st NAccount)) in *.
      assert (X2 := gen_extends st1 NDevice).
      assert (Ek : fst (let '(s1, a) := get_or_generate st NAccount in
                        let '(s2, d) := get_or_generate s1 NDevice in (s2, RPair a d)) = fst (get_or_generate st1 NDevice)).
      { subst st1. destruct (get_or_generate st NAccount) as [s1 a]. cbn [fst].
        destruct (get_or_generate s1 NDevice) as [s2 d]. reflexivity. }
      rewrite Ek.
      intros [<-|[<-|[<-|[]]]]; split; eauto using extends_refl, extends_trans.
    + destruct (get_or_generate st NProof) as [st1 p] eqn:E1.
      assert (X1 := gen_extends st NProof). rewrite E1 in X1. cbn [fst] in X1.
      assert (X2 := agree_extends st1 (NMember g) g p).
      destruct (get_or_agree st1 (NMember g) g p) as [st2 m] eqn:E2. cbn [fst] in X2.
      assert (X3 := gen_extends st2 (NMemberDevice g)).
      destruct (get_or_generate st2 (NMemberDevice g)) as [st3 d] eqn:E3. cbn [fst] in *.
      intros [<-|[<-|[<-|[<-|[]]]]]; split; eauto 6 using extends_refl, extends_trans.
  - assert (X1 := gen_extends st NAccount). set (st1 := fst (get_or_generate st NAccount)) in *.
    assert (X2 := gen_extends st1 NProof).
    assert (Ek : fst (let '(s1, a) := get_or_generate st NAccount in
                      let '(s2, p) := get_or_generate s1 NProof in (s2, RPair a p)) = fst (get_or_generate st1 NProof)).
    { subst st1. destruct (get_or_generate st NAccount) as [s1 a]. cbn [fst].
      destruct (get_or_generate s1 NProof) as [s2 p]. reflexivity. }
    rewrite Ek.
    intros [<-|[<-|[<-|[]]]]; split; eauto using extends_refl, extends_trans.
  - intros Hin. split; [|discriminate].
    destruct ba as [a| | |]; try (destruct Hin as [<-|[]]; apply extends_refl).
    destruct bp as [p| | |]; try (destruct Hin as [<-|[]]; apply extends_refl).
    destruct (key_eqb a p) eqn:EK; [destruct Hin as [<-|[]]; apply extends_refl|].
    destruct (lookup NAccount (ks st)) eqn:EA; [destruct Hin as [<-|[]]; apply extends_refl|].
    destruct (lookup NProof (ks st)) eqn:EP; [destruct Hin as [<-|[]]; apply extends_refl|].
    destruct Hin as [<-|[<-|[<-|[<-|[]]]]].
    + apply extends_refl.
    + apply extends_cons. exact EA.
    + apply extends_cons. exact EP.
    + cbn [fst].
      eapply extends_trans; [apply extends_cons; exact EP|].
      apply (extends_cons {| ks := (NProof, p) :: ks st; next := next st |} NAccount a (next st)).
      cbn [ks]. rewrite lookup_cons. cbn [name_eqb]. exact EA.
Qed.

Lemma kstep_extends st o : extends st (fst (kstep st o)).
Proof.
  destruct o as [| |b|kind g| |ba bp]; cbn [kstep].
  - assert (X := gen_extends st NAccount). destruct (get_or_generate st NAccount). exact X.
  - assert (X := gen_extends st NProof). destruct (get_or_generate st NProof). exact X.
  - assert (X1 := gen_extends st NAccount). destruct (get_or_generate st NAccount) as [s1 a]. cbn [fst] in X1.
    assert (X2 := agree_extends s1 (NContact b) b a). destruct (get_or_agree s1 (NContact b) b a) as [s2 k].
    cbn [fst] in *. eauto using extends_trans.
  - destruct kind.
    + assert (X1 := gen_extends st NAccount). destruct (get_or_generate st NAccount) as [s1 a]. cbn [fst] in X1.
      assert (X2 := gen_extends s1 NProof). destruct (get_or_generate s1 NProof) as [s2 p]. cbn [fst] in X2.
      assert (X3 := gen_extends s2 NDevice). destruct (get_or_generate s2 NDevice) as [s3 d].
      cbn [fst] in *. eauto using extends_trans.
    + assert (X1 := gen_extends st NAccount). destruct (get_or_generate st NAccount) as [s1 a]. cbn [fst] in X1.
      assert (X2 := gen_extends s1 NDevice). destruct (get_or_generate s1 NDevice) as [s2 d].
      cbn [fst] in *. eauto using extends_trans.
    + assert (X1 := gen_extends st NProof). destruct (get_or_generate st NProof) as [s1 p]. cbn [fst] in X1.
      assert (X2 := agree_extends s1 (NMember g) g p). destruct (get_or_agree s1 (NMember g) g p) as [s2 m]. cbn [fst] in X2.
      assert (X3 := gen_extends s2 (NMemberDevice g)). destruct (get_or_generate s2 (NMemberDevice g)) as [s3 d].
      cbn [fst] in *. eauto using extends_trans.
  - assert (X1 := gen_extends st NAccount). destruct (get_or_generate st NAccount) as [s1 a]. cbn [fst] in X1.
    assert (X2 := gen_extends s1 NProof). destruct (get_or_generate s1 NProof) as [s2 p].
    cbn [fst] in *. eauto using extends_trans.
  - destruct ba as [a| | |]; try apply extends_refl. destruct bp as [p| | |]; try apply extends_refl.
    destruct (key_eqb a p); [apply extends_refl|].
    destruct (lookup NAccount (ks st)) eqn:EA; [apply extends_refl|].
    destruct (lookup NProof (ks st)) eqn:EP; [apply extends_refl|]. cbn [fst].
    eapply extends_trans; [apply extends_cons; exact EP|].
    apply (extends_cons {| ks := (NProof, p) :: ks st; next := next st |} NAccount a (next st)).
    cbn [ks]. rewrite lookup_cons. cbn [name_eqb]. exact EA.
Qed.

Lemma krun_extends : forall ops st, extends st (krun st ops).
Proof.
  induction ops as [|o ops IH]; intros st; cbn [krun]; [apply extends_refl|].
  eapply extends_trans; [apply kstep_extends|apply IH].
Qed.

(* what an operation returned it returns again, without writing anything, on every store that still
   holds what the store held when the operation had completed *)
Lemma kstep_replay st o st1 r :
  is_import o = false -> kstep st o = (st1, r) ->
  forall st2, extends st1 st2 -> kstep st2 o = (st2, r).
Proof.
  intros Hi E st2 Hx. destruct o as [| |b|kind g| |ba bp]; [| | | | |discriminate]; cbn [kstep] in *.
  - assert (P := gen_present st NAccount). destruct (get_or_generate st NAccount) as [s1 k]. cbn [fst snd] in P.
    injection E as <- <-. rewrite (gen_read st2 NAccount k (Hx _ _ P)). reflexivity.
  - assert (P := gen_present st NProof). destruct (get_or_generate st NProof) as [s1 k]. cbn [fst snd] in P.
    injection E as <- <-. rewrite (gen_read st2 NProof k (Hx _ _ P)). reflexivity.
  - assert (P1 := gen_present st NAccount). destruct (get_or_generate st NAccount) as [s1 a]. cbn [fst snd] in P1.
    assert (X2 := agree_extends s1 (NContact b) b a). assert (P2 := agree_present s1 (NContact b) b a).
    destruct (get_or_agree s1 (NContact b) b a) as [s2 k]. cbn [fst snd] in *. injection E as <- <-.
    rewrite (gen_read st2 NAccount a (Hx _ _ (X2 _ _ P1))).
    rewrite (agree_read st2 (NContact b) b a k (Hx _ _ P2)). reflexivity.
  - destruct kind.
    + assert (P1 := gen_present st NAccount). destruct (get_or_generate st NAccount) as [s1 a]. cbn [fst snd] in P1.
      assert (X2 := gen_extends s1 NProof). assert (P2 := gen_present s1 NProof).
      destruct (get_or_generate s1 NProof) as [s2 p]. cbn [fst snd] in *.
      assert (X3 := gen_extends s2 NDevice). assert (P3 := gen_present s2 NDevice).
      destruct (get_or_generate s2 NDevice) as [s3 d]. cbn [fst snd] in *. injection E as <- <-.
      rewrite (gen_read st2 NAccount a (Hx _ _ (X3 _ _ (X2 _ _ P1)))).
      rewrite (gen_read st2 NProof p (Hx _ _ (X3 _ _ P2))).
      rewrite (gen_read st2 NDevice d (Hx _ _ P3)). reflexivity.
    + assert (P1 := gen_present st NAccount). destruct (get_or_generate st NAccount) as [s1 a]. cbn [fst snd] in P1.
      assert (X2 := gen_extends s1 NDevice). assert (P2 := gen_present s1 NDevice).
      destruct (get_or_generate s1 NDevice) as [s2 d]. cbn [fst snd] in *. injection E as <- <-.
      rewrite (gen_read st2 NAccount a (Hx _ _ (X2 _ _ P1))).
      rewrite (gen_read st2 NDevice d (Hx _ _ P2)). reflexivity.
    + assert (P1 := gen_present st NProof). destruct (get_or_generate st NProof) as [s1 p]. cbn [fst snd] in P1.
      assert (X2 := agree_extends s1 (NMember g) g p). assert (P2 := agree_present s1 (NMember g) g p).
      destruct (get_or_agree s1 (NMember g) g p) as [s2 m]. cbn [fst snd] in *.
      assert (X3 := gen_extends s2 (NMemberDevice g)). assert (P3 := gen_present s2 (NMemberDevice g)).
      destruct (get_or_generate s2 (NMemberDevice g)) as [s3 d]. cbn [fst snd] in *. injection E as <- <-.
      rewrite (gen_read st2 NProof p (Hx _ _ (X3 _ _ (X2 _ _ P1)))).
      rewrite (agree_read st2 (NMember g) g p m (Hx _ _ (X3 _ _ P2))).
      rewrite (gen_read st2 (NMemberDevice g) d (Hx _ _ P3)). reflexivity.
  - assert (P1 := gen_present st NAccount). destruct (get_or_generate st NAccount) as [s1 a]. cbn [fst snd] in P1.
    assert (X2 := gen_extends s1 NProof). assert (P2 := gen_present s1 NProof).
    destruct (get_or_generate s1 NProof) as [s2 p]. cbn [fst snd] in *. injection E as <- <-.
    rewrite (gen_read st2 NAccount a (Hx _ _ (X2 _ _ P1))).
    rewrite (gen_read st2 NProof p (Hx _ _ P2)). reflexivity.
Qed.

(* the statement of C10 for the named keys: an operation [o] has returned [r]; any operations follow;
   then the process stops inside ANY operation [oc], after any number of its puts ([c] is what the stop
   leaves); after the restart any operations follow; [o] still returns [r], and writes nothing *)
Theorem named_keys_survive_a_stop st o st1 r mid oc c later :
  is_import o = false -> kstep st o = (st1, r) ->
  In c (kstates (krun st1 mid) oc) ->
  kstep (krun c later) o = (krun c later, r).
Proof.
  intros Hi E Hc. apply (kstep_replay st o st1 r Hi E).
  eapply extends_trans; [apply krun_extends|].
  eapply extends_trans; [apply (proj1 (kstates_between _ _ _ Hc))|apply krun_extends].
Qed.

(* the states a stop can leave really are the states between the puts: first = nothing written, last = done *)
Lemma kstates_ends st o :
  hd_error (kstates st o) = Some st /\ (is_import o = false -> last (kstates st o) st = fst (kstep st o)).
Proof.
  destruct o as [| |b|kind g| |ba bp]; cbn [kstates kstep is_import].
  - destruct (get_or_generate st NAccount); split; reflexivity.
  - destruct (get_or_generate st NProof); split; reflexivity.
  - destruct (get_or_generate st NAccount) as [s1 a]. destruct (get_or_agree s1 (NContact b) b a); split; reflexivity.
  - destruct kind.
    + destruct (get_or_generate st NAccount) as [s1 a]. cbn [fst].
      destruct (get_or_generate s1 NProof) as [s2 p]. cbn [fst].
      destruct (get_or_generate s2 NDevice) as [s3 d]. split; reflexivity.
    + destruct (get_or_generate st NAccount) as [s1 a]. cbn [fst].
      destruct (get_or_generate s1 NDevice) as [s2 d]. split; reflexivity.
    + destruct (get_or_generate st NProof) as [s1 p]. destruct (get_or_agree s1 (NMember g) g p) as [s2 m].
      destruct (get_or_generate s2 (NMemberDevice g)) as [s3 d]. split; reflexivity.
  - destruct (get_or_generate st NAccount) as [s1 a]. cbn [fst].
    destruct (get_or_generate s1 NProof) as [s2 p]. split; reflexivity.
  - split; [|discriminate]. destruct ba as [a| | |]; try reflexivity. destruct bp as [p| | |]; try reflexivity.
    destruct (key_eqb a p); [reflexivity|]. destruct (lookup NAccount (ks st)); [reflexivity|].
    destruct (lookup NProof (ks st)); reflexivity.
Qed.

(* an import that stops between its two puts leaves an account with ONE of the imported keys; a second
   import is then refused and the other key is generated afresh: the interrupted restore is not resumed
   (observation; the keys had not been in use) *)
Lemma half_import_observation :
  let st := {| ks := []; next := 1 |} in
  let o := OImport (BKey (Fresh 101)) (BKey (Fresh 102)) in
  let c := {| ks := [(NAccount, Fresh 101)]; next := 1 |} in
  In c (kstates st o) /\ snd (kstep c o) = RRefused /\ snd (kstep c OExport) = RPair (Fresh 101) (Fresh 1).
Proof. vm_compute. repeat split; try reflexivity. right. left. reflexivity. Qed.
