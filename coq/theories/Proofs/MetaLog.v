(* MetaLog — proofs.  The derived state is a monoid: every event contributes an element
   [delta e]; the newest-first scan multiplies on the right, the log-order application on the
   left, so both compute the same product.  Maps are Coq functions: equalities of states use
   functional extensionality (Coq.Logic.FunctionalExtensionality, standard library axiom). *)
From Coq Require Import List NArith Bool Lia Sorted Permutation FunctionalExtensionality.
From Wesh Require Import Model.MetaLog.
Import ListNotations.
Open Scope N_scope.

(* ---------- sorting ---------- *)

Lemma eleb_total a b : eleb a b = true \/ eleb b a = true.
Proof.
  unfold eleb.
  destruct (N.ltb_spec (e_clock a) (e_clock b)); [left; reflexivity|].
  destruct (N.ltb_spec (e_clock b) (e_clock a)); [right; reflexivity|].
  assert (Hc : e_clock a = e_clock b) by lia.
  rewrite Hc, N.eqb_refl. cbn.
  destruct (N.leb_spec (e_id a) (e_id b)); [left; reflexivity|].
  right. apply N.leb_le. lia.
Qed.

Lemma eleb_trans a b c : eleb a b = true -> eleb b c = true -> eleb a c = true.
Proof.
  unfold eleb. intros H1 H2.
  apply orb_true_iff in H1. apply orb_true_iff in H2. apply orb_true_iff.
  destruct H1 as [H1|H1]; destruct H2 as [H2|H2].
  - left. apply N.ltb_lt in H1. apply N.ltb_lt in H2. apply N.ltb_lt. lia.
  - apply andb_true_iff in H2. destruct H2 as [H2 _]. apply N.eqb_eq in H2.
    left. apply N.ltb_lt in H1. apply N.ltb_lt. lia.
  - apply andb_true_iff in H1. destruct H1 as [H1 _]. apply N.eqb_eq in H1.
    left. apply N.ltb_lt in H2. apply N.ltb_lt. lia.
  - apply andb_true_iff in H1. apply andb_true_iff in H2.
    destruct H1 as [H1 H1']. destruct H2 as [H2 H2'].
    apply N.eqb_eq in H1. apply N.eqb_eq in H2. apply N.leb_le in H1'. apply N.leb_le in H2'.
    right. apply andb_true_iff. split; [apply N.eqb_eq; lia | apply N.leb_le; lia].
Qed.

Lemma eleb_antisym a b : eleb a b = true -> eleb b a = true -> e_clock a = e_clock b /\ e_id a = e_id b.
Proof.
  unfold eleb. intros H1 H2.
  apply orb_true_iff in H1. apply orb_true_iff in H2.
  destruct H1 as [H1|H1]; destruct H2 as [H2|H2].
  - apply N.ltb_lt in H1. apply N.ltb_lt in H2. lia.
  - apply andb_true_iff in H2. destruct H2 as [H2 _]. apply N.eqb_eq in H2. apply N.ltb_lt in H1. lia.
  - apply andb_true_iff in H1. destruct H1 as [H1 _]. apply N.eqb_eq in H1. apply N.ltb_lt in H2. lia.
  - apply andb_true_iff in H1. apply andb_true_iff in H2.
    destruct H1 as [H1 H1']. destruct H2 as [H2 H2'].
    apply N.eqb_eq in H1. apply N.leb_le in H1'. apply N.leb_le in H2'. split; lia.
Qed.

Definition ele (a b : entry) : Prop := eleb a b = true.

Lemma insert_perm x l : Permutation (insert x l) (x :: l).
Proof.
  induction l as [|y l IH]; cbn; [reflexivity|].
  destruct (eleb x y); [reflexivity|].
  rewrite IH. apply perm_swap.
Qed.

Lemma sort_perm l : Permutation (sort_entries l) l.
Proof.
  induction l as [|x l IH]; cbn; [reflexivity|].
  rewrite insert_perm. apply perm_skip. exact IH.
Qed.

Lemma sort_in l e : In e (sort_entries l) <-> In e l.
Proof. split; apply Permutation_in; [apply sort_perm | symmetry; apply sort_perm]. Qed.

Lemma insert_sorted x l : StronglySorted ele l -> StronglySorted ele (insert x l).
Proof.
  induction l as [|y l IH]; intros Hs; cbn.
  - constructor; constructor.
  - destruct (eleb x y) eqn:Hxy.
    + constructor; [exact Hs|]. constructor; [exact Hxy|].
      inversion Hs as [|? ? _ Hall]; subst.
      eapply Forall_impl; [|exact Hall]. intros z Hz. eapply eleb_trans; eassumption.
    + inversion Hs as [|? ? Hs' Hall]; subst.
      constructor; [apply IH; exact Hs'|].
      assert (Hyx : eleb y x = true) by (destruct (eleb_total x y) as [H|H]; congruence).
      eapply Permutation_Forall; [symmetry; apply insert_perm|].
      constructor; assumption.
Qed.

Lemma sort_sorted l : StronglySorted ele (sort_entries l).
Proof. induction l as [|x l IH]; cbn; [constructor | apply insert_sorted; exact IH]. Qed.

Lemma sorted_unique l l' :
  StronglySorted ele l -> StronglySorted ele l' ->
  NoDup (map e_id l) -> NoDup (map e_id l') ->
  (forall e, In e l <-> In e l') -> l = l'.
Proof.
  revert l'. induction l as [|a t IH]; intros l' Hs Hs' Hn Hn' Heq.
  - destruct l' as [|a' t']; [reflexivity|]. exfalso. apply (Heq a'). left; reflexivity.
  - destruct l' as [|a' t']; [exfalso; apply (Heq a); left; reflexivity|].
    inversion Hs as [|? ? Hst Hall]; subst. inversion Hs' as [|? ? Hst' Hall']; subst.
    cbn in Hn, Hn'. inversion Hn as [|? ? Hni Hnt]; subst. inversion Hn' as [|? ? Hni' Hnt']; subst.
    assert (Haa : a = a').
    { destruct (proj1 (Heq a) (or_introl eq_refl)) as [E|Hin]; [symmetry; exact E|].
      destruct (proj2 (Heq a') (or_introl eq_refl)) as [E|Hin']; [exact E|].
      rewrite Forall_forall in Hall, Hall'.
      destruct (eleb_antisym a a' (Hall _ Hin') (Hall' _ Hin)) as [_ Hid].
      exfalso. apply Hni. rewrite Hid. apply in_map. exact Hin'. }
    subst a'. f_equal. apply IH; try assumption.
    intros e. split; intros Hin.
    + destruct (proj1 (Heq e) (or_intror Hin)) as [E|H]; [|exact H].
      subst e. exfalso. apply Hni. apply in_map. exact Hin.
    + destruct (proj2 (Heq e) (or_intror Hin)) as [E|H]; [|exact H].
      subst e. exfalso. apply Hni'. apply in_map. exact Hin.
Qed.

Lemma sort_ids_nodup l : NoDup (map e_id l) -> NoDup (map e_id (sort_entries l)).
Proof.
  intros H. eapply Permutation_NoDup; [|exact H].
  apply Permutation_map. symmetry. apply sort_perm.
Qed.

(* the sorted log is a function of the entry SET *)
Lemma sort_set_function es es' :
  ids_distinct es -> ids_distinct es' -> (forall e, In e es <-> In e es') ->
  sort_entries es = sort_entries es'.
Proof.
  intros H1 H2 Heq. apply sorted_unique; try apply sort_sorted; try (apply sort_ids_nodup; assumption).
  intros e. rewrite !sort_in. apply Heq.
Qed.

(* a log written by one writer (strictly increasing clocks) is already in log order *)
Lemma insert_last x l :
  Forall (fun y => e_clock y < e_clock x) l -> insert x l = l ++ [x].
Proof.
  induction l as [|y l IH]; intros H; cbn; [reflexivity|].
  inversion H as [|? ? Hy Hl]; subst.
  assert (E : eleb x y = false).
  { unfold eleb. apply orb_false_iff. split.
    - apply N.ltb_ge. lia.
    - apply andb_false_iff. left. apply N.eqb_neq. lia. }
  rewrite E. f_equal. apply IH. exact Hl.
Qed.

(* ---------- the monoid of states ---------- *)

Definition cmerge (newer older : option crec) : option crec :=
  match newer, older with
  | Some a, Some b => Some (mkC (c_state a) (nz (c_meta a) (c_meta b)) (nz (c_seed a) (c_seed b)) (c_own a))
  | Some a, None => Some a
  | None, b => b
  end.

Definition first_some {A} (a b : option A) : option A := match a with Some _ => a | None => b end.

Definition gmerge (newer older : gstate) : gstate :=
  mkG (fun pk => cmerge (g_contact newer pk) (g_contact older pk))
      (first_some (g_enabled newer) (g_enabled older))
      (nz (g_seed newer) (g_seed older))
      (fun g => first_some (g_group newer g) (g_group older g))
      (fun d => first_some (g_dev newer d) (g_dev older d))
      (fun m => g_sent newer m || g_sent older m)
      (fun m => g_admin newer m || g_admin older m)
      (g_creds newer ++ g_creds older).

Definition delta (own : N) (e : ev) : gstate := hscan own ginit e.

Lemma gstate_eq a b :
  (forall k, g_contact a k = g_contact b k) -> g_enabled a = g_enabled b -> g_seed a = g_seed b ->
  (forall k, g_group a k = g_group b k) -> (forall k, g_dev a k = g_dev b k) ->
  (forall k, g_sent a k = g_sent b k) -> (forall k, g_admin a k = g_admin b k) ->
  g_creds a = g_creds b -> a = b.
Proof.
  destruct a, b; cbn. intros H1 H2 H3 H4 H5 H6 H7 H8.
  f_equal; try assumption; apply functional_extensionality; assumption.
Qed.

Lemma nz_assoc a b c : nz a (nz b c) = nz (nz a b) c.
Proof. unfold nz. destruct (a =? 0) eqn:E; [reflexivity|]. rewrite E. reflexivity. Qed.

Lemma nz_0_l a : nz 0 a = a.  Proof. reflexivity. Qed.
Lemma nz_0_r a : nz a 0 = a.
Proof. unfold nz. destruct (N.eqb_spec a 0); congruence. Qed.

Lemma cmerge_assoc a b c : cmerge a (cmerge b c) = cmerge (cmerge a b) c.
Proof.
  destruct a as [a|], b as [b|], c as [c|]; cbn; try reflexivity.
  rewrite !nz_assoc. reflexivity.
Qed.

Lemma first_some_assoc {A} (a b c : option A) : first_some a (first_some b c) = first_some (first_some a b) c.
Proof. destruct a, b; reflexivity. Qed.

Lemma gmerge_assoc a b c : gmerge a (gmerge b c) = gmerge (gmerge a b) c.
Proof.
  apply gstate_eq; cbn; intros.
  - apply cmerge_assoc.
  - apply first_some_assoc.
  - apply nz_assoc.
  - apply first_some_assoc.
  - apply first_some_assoc.
  - apply orb_assoc.
  - apply orb_assoc.
  - apply app_assoc.
Qed.

Lemma gmerge_init_l a : gmerge ginit a = a.
Proof. apply gstate_eq; cbn; intros; reflexivity. Qed.

Lemma gmerge_init_r a : gmerge a ginit = a.
Proof.
  apply gstate_eq; cbn; intros.
  - destruct (g_contact a k); reflexivity.
  - destruct (g_enabled a); reflexivity.
  - apply nz_0_r.
  - destruct (g_group a k); reflexivity.
  - destruct (g_dev a k); reflexivity.
  - apply orb_false_r.
  - apply orb_false_r.
  - apply app_nil_r.
Qed.

Lemma upd_same {A} (f : N -> A) k v : upd f k v k = v.
Proof. unfold upd. rewrite N.eqb_refl. reflexivity. Qed.

Lemma upd_other {A} (f : N -> A) k v x : x <> k -> upd f k v x = f x.
Proof. unfold upd. intros H. destruct (N.eqb_spec x k); congruence. Qed.

Ltac upd_cases k x :=
  destruct (N.eq_dec x k) as [->|?]; [rewrite ?upd_same | rewrite ?upd_other by assumption].

(* the newest-first handler multiplies on the right *)
Lemma hscan_gmerge own s e : hscan own s e = gmerge s (delta own e).
Proof.
  unfold delta.
  destruct e as [pk meta seed ownmd|pk|pk meta seed|pk|pk|pk|pk| | |sd|g|g|m d|sender dest|m|c|k|ad ak]; cbn.
  - destruct (g_contact s pk) as [c|] eqn:E; apply gstate_eq; cbn; intros;
      try (destruct (g_enabled s); reflexivity); try (rewrite ?nz_0_r; reflexivity);
      try (destruct (g_group s k); reflexivity); try (destruct (g_dev s k); reflexivity);
      try (rewrite ?orb_false_r; reflexivity); try (rewrite ?app_nil_r; reflexivity).
    + upd_cases pk k; [rewrite E; reflexivity | destruct (g_contact s k); reflexivity].
    + upd_cases pk k; [rewrite E; reflexivity | destruct (g_contact s k); reflexivity].
  - unfold scan_plain. destruct (g_contact s pk) as [c|] eqn:E; apply gstate_eq; cbn; intros;
      try (destruct (g_enabled s); reflexivity); try (rewrite ?nz_0_r; reflexivity);
      try (destruct (g_group s k); reflexivity); try (destruct (g_dev s k); reflexivity);
      try (rewrite ?orb_false_r; reflexivity); try (rewrite ?app_nil_r; reflexivity).
    + upd_cases pk k; [rewrite E; cbn; rewrite !nz_0_r; destruct c; reflexivity | destruct (g_contact s k); reflexivity].
    + upd_cases pk k; [rewrite E; reflexivity | destruct (g_contact s k); reflexivity].
  - destruct (g_contact s pk) as [c|] eqn:E; apply gstate_eq; cbn; intros;
      try (destruct (g_enabled s); reflexivity); try (rewrite ?nz_0_r; reflexivity);
      try (destruct (g_group s k); reflexivity); try (destruct (g_dev s k); reflexivity);
      try (rewrite ?orb_false_r; reflexivity); try (rewrite ?app_nil_r; reflexivity).
    + upd_cases pk k; [rewrite E; reflexivity | destruct (g_contact s k); reflexivity].
    + upd_cases pk k; [rewrite E; reflexivity | destruct (g_contact s k); reflexivity].
  - unfold scan_plain. destruct (g_contact s pk) as [c|] eqn:E; apply gstate_eq; cbn; intros;
      try (destruct (g_enabled s); reflexivity); try (rewrite ?nz_0_r; reflexivity);
      try (destruct (g_group s k); reflexivity); try (destruct (g_dev s k); reflexivity);
      try (rewrite ?orb_false_r; reflexivity); try (rewrite ?app_nil_r; reflexivity).
    + upd_cases pk k; [rewrite E; cbn; rewrite !nz_0_r; destruct c; reflexivity | destruct (g_contact s k); reflexivity].
    + upd_cases pk k; [rewrite E; reflexivity | destruct (g_contact s k); reflexivity].
  - unfold scan_plain. destruct (g_contact s pk) as [c|] eqn:E; apply gstate_eq; cbn; intros;
      try (destruct (g_enabled s); reflexivity); try (rewrite ?nz_0_r; reflexivity);
      try (destruct (g_group s k); reflexivity); try (destruct (g_dev s k); reflexivity);
      try (rewrite ?orb_false_r; reflexivity); try (rewrite ?app_nil_r; reflexivity).
    + upd_cases pk k; [rewrite E; cbn; rewrite !nz_0_r; destruct c; reflexivity | destruct (g_contact s k); reflexivity].
    + upd_cases pk k; [rewrite E; reflexivity | destruct (g_contact s k); reflexivity].
  - unfold scan_plain. destruct (g_contact s pk) as [c|] eqn:E; apply gstate_eq; cbn; intros;
      try (destruct (g_enabled s); reflexivity); try (rewrite ?nz_0_r; reflexivity);
      try (destruct (g_group s k); reflexivity); try (destruct (g_dev s k); reflexivity);
      try (rewrite ?orb_false_r; reflexivity); try (rewrite ?app_nil_r; reflexivity).
    + upd_cases pk k; [rewrite E; cbn; rewrite !nz_0_r; destruct c; reflexivity | destruct (g_contact s k); reflexivity].
    + upd_cases pk k; [rewrite E; reflexivity | destruct (g_contact s k); reflexivity].
  - unfold scan_plain. destruct (g_contact s pk) as [c|] eqn:E; apply gstate_eq; cbn; intros;
      try (destruct (g_enabled s); reflexivity); try (rewrite ?nz_0_r; reflexivity);
      try (destruct (g_group s k); reflexivity); try (destruct (g_dev s k); reflexivity);
      try (rewrite ?orb_false_r; reflexivity); try (rewrite ?app_nil_r; reflexivity).
    + upd_cases pk k; [rewrite E; cbn; rewrite !nz_0_r; destruct c; reflexivity | destruct (g_contact s k); reflexivity].
    + upd_cases pk k; [rewrite E; reflexivity | destruct (g_contact s k); reflexivity].
  - destruct (g_enabled s) eqn:E; apply gstate_eq; cbn; intros; rewrite ?E;
      try reflexivity; try (destruct (g_contact s k); reflexivity); try (rewrite ?nz_0_r; reflexivity);
      try (destruct (g_group s k); reflexivity); try (destruct (g_dev s k); reflexivity);
      try (rewrite ?orb_false_r; reflexivity); try (rewrite ?app_nil_r; reflexivity).
  - destruct (g_enabled s) eqn:E; apply gstate_eq; cbn; intros; rewrite ?E;
      try reflexivity; try (destruct (g_contact s k); reflexivity); try (rewrite ?nz_0_r; reflexivity);
      try (destruct (g_group s k); reflexivity); try (destruct (g_dev s k); reflexivity);
      try (rewrite ?orb_false_r; reflexivity); try (rewrite ?app_nil_r; reflexivity).
  - apply gstate_eq; cbn; intros;
      try reflexivity; try (destruct (g_contact s k); reflexivity); try (destruct (g_enabled s); reflexivity);
      try (destruct (g_group s k); reflexivity); try (destruct (g_dev s k); reflexivity);
      try (rewrite ?orb_false_r; reflexivity); try (rewrite ?app_nil_r; reflexivity).
  - destruct (g_group s g) eqn:E; apply gstate_eq; cbn; intros;
      try (destruct (g_contact s k); reflexivity); try (destruct (g_enabled s); reflexivity);
      try (rewrite ?nz_0_r; reflexivity); try (destruct (g_dev s k); reflexivity);
      try (rewrite ?orb_false_r; reflexivity); try (rewrite ?app_nil_r; reflexivity).
    + upd_cases g k; [rewrite E; reflexivity | destruct (g_group s k); reflexivity].
    + upd_cases g k; [rewrite E; reflexivity | destruct (g_group s k); reflexivity].
  - destruct (g_group s g) eqn:E; apply gstate_eq; cbn; intros;
      try (destruct (g_contact s k); reflexivity); try (destruct (g_enabled s); reflexivity);
      try (rewrite ?nz_0_r; reflexivity); try (destruct (g_dev s k); reflexivity);
      try (rewrite ?orb_false_r; reflexivity); try (rewrite ?app_nil_r; reflexivity).
    + upd_cases g k; [rewrite E; reflexivity | destruct (g_group s k); reflexivity].
    + upd_cases g k; [rewrite E; reflexivity | destruct (g_group s k); reflexivity].
  - destruct (g_dev s d) eqn:E; apply gstate_eq; cbn; intros;
      try (destruct (g_contact s k); reflexivity); try (destruct (g_enabled s); reflexivity);
      try (rewrite ?nz_0_r; reflexivity); try (destruct (g_group s k); reflexivity);
      try (rewrite ?orb_false_r; reflexivity); try (rewrite ?app_nil_r; reflexivity).
    + upd_cases d k; [rewrite E; reflexivity | destruct (g_dev s k); reflexivity].
    + upd_cases d k; [rewrite E; reflexivity | destruct (g_dev s k); reflexivity].
  - destruct (sender =? own); apply gstate_eq; cbn; intros;
      try (destruct (g_contact s k); reflexivity); try (destruct (g_enabled s); reflexivity);
      try (rewrite ?nz_0_r; reflexivity); try (destruct (g_group s k); reflexivity);
      try (destruct (g_dev s k); reflexivity);
      try (rewrite ?orb_false_r; reflexivity); try (rewrite ?app_nil_r; reflexivity).
    upd_cases dest k; [rewrite orb_true_r; reflexivity | rewrite orb_false_r; reflexivity].
  - apply gstate_eq; cbn; intros;
      try (destruct (g_contact s k); reflexivity); try (destruct (g_enabled s); reflexivity);
      try (rewrite ?nz_0_r; reflexivity); try (destruct (g_group s k); reflexivity);
      try (destruct (g_dev s k); reflexivity);
      try (rewrite ?orb_false_r; reflexivity); try (rewrite ?app_nil_r; reflexivity).
    upd_cases m k; [rewrite orb_true_r; reflexivity | rewrite orb_false_r; reflexivity].
  - apply gstate_eq; cbn; intros;
      try reflexivity;
      try (destruct (g_contact s k); reflexivity); try (destruct (g_enabled s); reflexivity);
      try (rewrite ?nz_0_r; reflexivity); try (destruct (g_group s k); reflexivity);
      try (destruct (g_dev s k); reflexivity);
      try (rewrite ?orb_false_r; reflexivity).
  - symmetry. apply gmerge_init_r.
  - symmetry. apply gmerge_init_r.
Qed.

(* the log-order handler multiplies on the left *)
Lemma happly_gmerge own s e : happly own s e = gmerge (delta own e) s.
Proof.
  unfold delta.
  destruct e as [pk meta seed ownmd|pk|pk meta seed|pk|pk|pk|pk| | |sd|g|g|m d|sender dest|m|c|k|ad ak]; cbn;
    try (unfold apply_plain, scan_plain, prev_meta, prev_seed; cbn);
    try (lazymatch goal with |- context [if (_ =? own) then _ else _] => fail | _ => idtac end;
         apply gstate_eq; cbn; intros; try reflexivity;
         match goal with
         | |- context [upd _ ?a _ ?b] => upd_cases a b
         | _ => idtac
         end; cbn; try reflexivity;
         try (unfold prev_meta, prev_seed; destruct (g_contact s _); cbn; rewrite ?nz_0_r; reflexivity)).
  - destruct (sender =? own); apply gstate_eq; cbn; intros; try reflexivity.
    upd_cases dest k; reflexivity.
Qed.

(* product of the contributions of a list given newest first *)
Definition summary (own : N) (newest_first : list ev) : gstate :=
  fold_right (fun e acc => gmerge (delta own e) acc) ginit newest_first.

Lemma summary_cons own e l : summary own (e :: l) = gmerge (delta own e) (summary own l).
Proof. reflexivity. Qed.
Lemma summary_nil own : summary own [] = ginit.
Proof. reflexivity. Qed.
Arguments summary : simpl never.

Lemma summary_app own a b : summary own (a ++ b) = gmerge (summary own a) (summary own b).
Proof.
  induction a as [|e a IH]; cbn [app]; [rewrite summary_nil; symmetry; apply gmerge_init_l|].
  rewrite !summary_cons, IH. apply gmerge_assoc.
Qed.

Lemma scan_summary own l s : scan own s l = gmerge s (summary own l).
Proof.
  revert s. induction l as [|e l IH]; intros s.
  - rewrite summary_nil. symmetry. apply gmerge_init_r.
  - unfold scan in *. cbn [fold_left]. rewrite IH, hscan_gmerge, summary_cons, <- gmerge_assoc. reflexivity.
Qed.

Lemma apply_summary own l s : fold_left (happly own) l s = gmerge (summary own (rev l)) s.
Proof.
  revert s. induction l as [|e l IH]; intros s; cbn [fold_left rev].
  - rewrite summary_nil. symmetry. apply gmerge_init_l.
  - rewrite IH, happly_gmerge, summary_app, summary_cons, summary_nil, gmerge_init_r, gmerge_assoc. reflexivity.
Qed.

(* scanning newest first = applying in log order, latest wins *)
Lemma scan_is_apply own l : scan own ginit (rev l) = apply_log own l.
Proof.
  unfold apply_log. rewrite scan_summary, apply_summary, gmerge_init_l, gmerge_init_r. reflexivity.
Qed.

Lemma reset_init : reset ginit = ginit.  Proof. reflexivity. Qed.

Lemma index_is_apply own es : index own es = apply_log own (map e_ev (sort_entries es)).
Proof. unfold index, update_index. rewrite reset_init. apply scan_is_apply. Qed.

Lemma index_set_function own es es' :
  ids_distinct es -> ids_distinct es' -> (forall e, In e es <-> In e es') -> index own es = index own es'.
Proof.
  intros H1 H2 H3. unfold index, update_index. rewrite (sort_set_function es es' H1 H2 H3). reflexivity.
Qed.

(* ---------- the persisted parts ---------- *)

Lemma summary_dev_some own l d m : g_dev (summary own l) d = Some m -> In (EDevice m d) l.
Proof.
  induction l as [|e l IH]; [rewrite summary_nil; cbn; discriminate|].
  rewrite summary_cons. cbn. intros H. unfold first_some in H.
  destruct (g_dev (delta own e) d) as [m'|] eqn:E.
  - left. unfold delta in E. destruct e; cbn in E; try discriminate;
      try (unfold scan_plain in E; cbn in E; discriminate);
      try (destruct (_ =? own); cbn in E; discriminate).
    unfold upd in E. destruct (N.eqb_spec d d0); [|discriminate]. subst. congruence.
  - right. apply IH. exact H.
Qed.

Lemma summary_dev_in own l d m :
  In (EDevice m d) l -> exists m', g_dev (summary own l) d = Some m' /\ In (EDevice m' d) l.
Proof.
  induction l as [|e l IH]; [intros []|].
  rewrite summary_cons. cbn. intros [->|Hin].
  - exists m. cbn. rewrite upd_same. cbn. split; [reflexivity | left; reflexivity].
  - unfold first_some. destruct (g_dev (delta own e) d) as [m'|] eqn:E.
    + exists m'. split; [reflexivity|]. left.
      unfold delta in E. destruct e; cbn in E; try discriminate;
        try (unfold scan_plain in E; cbn in E; discriminate);
        try (destruct (_ =? own); cbn in E; discriminate).
      unfold upd in E. destruct (N.eqb_spec d d0); [|discriminate]. subst. congruence.
    + destruct (IH Hin) as [m' [H1 H2]]. exists m'. split; [exact H1 | right; exact H2].
Qed.

Lemma summary_sent own l m : g_sent (summary own l) m = true <-> In (ESecret own m) l.
Proof.
  induction l as [|e l IH]; [rewrite summary_nil; cbn; split; [discriminate | intros []]|].
  rewrite summary_cons. cbn. rewrite orb_true_iff, IH. split.
  - intros [H|H]; [left|right; exact H].
    unfold delta in H. destruct e; cbn in H; try discriminate;
      try (unfold scan_plain in H; cbn in H; discriminate).
    destruct (N.eqb_spec sender own); cbn in H; [|discriminate].
    unfold upd in H. destruct (N.eqb_spec m dest); [|discriminate]. subst. reflexivity.
  - intros [->|H]; [left|right; exact H].
    unfold delta. cbn. rewrite N.eqb_refl. cbn. apply upd_same.
Qed.

Lemma summary_admin own l m : g_admin (summary own l) m = true <-> In (EInit m) l.
Proof.
  induction l as [|e l IH]; [rewrite summary_nil; cbn; split; [discriminate | intros []]|].
  rewrite summary_cons. cbn. rewrite orb_true_iff, IH. split.
  - intros [H|H]; [left|right; exact H].
    unfold delta in H. destruct e; cbn in H; try discriminate;
      try (unfold scan_plain in H; cbn in H; discriminate);
      try (destruct (_ =? own); cbn in H; discriminate).
    unfold upd in H. destruct (N.eqb_spec m m0); [|discriminate]. subst. reflexivity.
  - intros [->|H]; [left|right; exact H].
    unfold delta. cbn. apply upd_same.
Qed.

(* merging persisted parts that come from the log into the log's own summary changes nothing *)
Lemma persisted_absorbed own s l :
  dev_functional l -> persisted_from s l own -> gmerge (reset s) (summary own l) = summary own l.
Proof.
  intros Hf [Hd [Hs Ha]]. apply gstate_eq; cbn; intros; try reflexivity.
  - unfold first_some. destruct (g_dev s k) as [m|] eqn:E; [|reflexivity].
    destruct (summary_dev_in own l k m (Hd _ _ E)) as [m' [H1 H2]].
    rewrite H1. f_equal. eapply Hf; [apply Hd; exact E | exact H2].
  - destruct (g_sent s k) eqn:E; [|reflexivity]. cbn. symmetry. apply summary_sent. apply Hs. exact E.
  - destruct (g_admin s k) eqn:E; [|reflexivity]. cbn. symmetry. apply summary_admin. apply Ha. exact E.
Qed.

Lemma persisted_mono s l l' own : incl l l' -> persisted_from s l own -> persisted_from s l' own.
Proof.
  intros Hi [Hd [Hs Ha]]. repeat split; intros.
  - apply Hi. apply Hd. assumption.
  - apply Hi. apply Hs. assumption.
  - apply Hi. apply Ha. assumption.
Qed.

Lemma persisted_init l own : persisted_from ginit l own.
Proof. repeat split; cbn; intros; discriminate. Qed.

Lemma persisted_gmerge a b l own :
  persisted_from a l own -> persisted_from b l own -> persisted_from (gmerge a b) l own.
Proof.
  intros [Hd [Hs Ha]] [Hd' [Hs' Ha']]. repeat split; cbn; intros.
  - unfold first_some in H. destruct (g_dev a d) eqn:E; [apply Hd; congruence | apply Hd'; exact H].
  - apply orb_true_iff in H. destruct H; [apply Hs | apply Hs']; assumption.
  - apply orb_true_iff in H. destruct H; [apply Ha | apply Ha']; assumption.
Qed.

Lemma persisted_reset s l own : persisted_from s l own -> persisted_from (reset s) l own.
Proof. intros H. exact H. Qed.

Lemma persisted_summary own l : persisted_from (summary own l) l own.
Proof.
  repeat split; intros.
  - apply (summary_dev_some own). assumption.
  - apply (summary_sent own). assumption.
  - apply (summary_admin own). assumption.
Qed.

Definition log_events (es : list entry) : list ev := rev (map e_ev (sort_entries es)).

Lemma log_events_incl es es' : incl es es' -> incl (log_events es) (log_events es').
Proof.
  intros Hi e He. unfold log_events in *.
  rewrite <- in_rev in He. rewrite <- in_rev. apply in_map_iff in He. destruct He as [x [<- Hx]].
  apply in_map. apply (proj2 (sort_in _ _)). apply Hi. apply (proj1 (sort_in _ _)). exact Hx.
Qed.

Lemma update_index_gmerge own prev es :
  update_index own prev es = gmerge (reset prev) (summary own (log_events es)).
Proof. unfold update_index. apply scan_summary. Qed.

Lemma update_index_persisted own prev es final :
  incl es final -> persisted_from prev (log_events final) own ->
  persisted_from (update_index own prev es) (log_events final) own.
Proof.
  intros Hi Hp. rewrite update_index_gmerge. apply persisted_gmerge.
  - apply persisted_reset. exact Hp.
  - eapply persisted_mono; [apply log_events_incl; exact Hi | apply persisted_summary].
Qed.

Lemma fold_update_persisted own ls final s :
  Forall (fun l => incl l final) ls -> persisted_from s (log_events final) own ->
  persisted_from (fold_left (update_index own) ls s) (log_events final) own.
Proof.
  revert s. induction ls as [|l ls IH]; intros s Hall Hp; cbn; [exact Hp|].
  inversion Hall as [|? ? Hl Hls]; subst.
  apply IH; [exact Hls|]. apply update_index_persisted; assumption.
Qed.

Lemma index_gmerge own es : index own es = summary own (log_events es).
Proof. unfold index. rewrite update_index_gmerge, reset_init, gmerge_init_l. reflexivity. Qed.

(* whatever sub-logs were indexed before, in whatever order: after indexing the final log the
   state is the one of a fresh index of that log *)
Lemma arrival_independent own final ls :
  dev_functional (map e_ev final) -> Forall (fun l => incl l final) ls ->
  update_index own (fold_left (update_index own) ls ginit) final = index own final.
Proof.
  intros Hf Hall. rewrite update_index_gmerge, index_gmerge.
  apply persisted_absorbed.
  - intros m m' d H1 H2. unfold log_events in H1, H2.
    rewrite <- in_rev in H1. rewrite <- in_rev in H2.
    apply in_map_iff in H1. apply in_map_iff in H2.
    destruct H1 as [x [Ex Hx]]. destruct H2 as [y [Ey Hy]].
    apply (proj1 (sort_in _ _)) in Hx. apply (proj1 (sort_in _ _)) in Hy.
    eapply Hf; [rewrite <- Ex | rewrite <- Ey]; apply in_map; assumption.
  - apply fold_update_persisted; [exact Hall | apply persisted_init].
Qed.

Lemma reindex_idempotent own es n :
  dev_functional (map e_ev es) ->
  Nat.iter n (fun s => update_index own s es) (index own es) = index own es.
Proof.
  intros Hf. induction n as [|n IH]; [reflexivity|].
  change (Nat.iter (S n) (fun s => update_index own s es) (index own es))
    with (update_index own (Nat.iter n (fun s => update_index own s es) (index own es)) es).
  rewrite IH.
  change (index own es) with (fold_left (update_index own) [es] ginit) at 1.
  apply arrival_independent; [exact Hf|].
  constructor; [apply incl_refl | constructor].
Qed.

(* ---------- the pinned behaviour (scan in arrival order) was not a function of the set ---------- *)

Definition wit_a : entry := mkE 1 1 (EBlock 7).
Definition wit_b : entry := mkE 2 2 (EUnblock 7).

Lemma arrival_order_mattered :
  g_contact (update_index_arrival 0 ginit [wit_a; wit_b]) 7 <> g_contact (update_index_arrival 0 ginit [wit_b; wit_a]) 7
  /\ index 0 [wit_a; wit_b] = index 0 [wit_b; wit_a].
Proof.
  split.
  - vm_compute. discriminate.
  - apply index_set_function.
    + unfold ids_distinct. cbn. repeat constructor; cbn; intuition discriminate.
    + unfold ids_distinct. cbn. repeat constructor; cbn; intuition discriminate.
    + intros e. cbn. tauto.
Qed.
