(* C20 — proofs: export then restore is the identity on keys, logs and heads; damaged archives
   are not restored. *)
From Coq Require Import List NArith Bool Lia Permutation.
From Wesh Require Import Model.C20_Export.
Import ListNotations.
Open Scope N_scope.

Lemma rfiles_app s fs1 fs2 :
  rfiles s (fs1 ++ fs2) = match rfiles s fs1 with inl s1 => rfiles s1 fs2 | inr e => inr e end.
Proof.
  revert s. induction fs1 as [|f fs1 IH]; intros s; cbn; [reflexivity|].
  destruct (rstep s f) as [s'|e]; [apply IH | reflexivity].
Qed.

(* ---------- damaged archives ---------- *)

Definition bad_entry (claimed : N) (content : option node) : Prop :=
  content = None \/ exists n, content = Some n /\ n_cid n <> claimed.

Lemma bad_entry_step s claimed content : bad_entry claimed content -> rstep s (FEntry claimed content) = inr Rejected.
Proof.
  intros [->|[n [-> Hn]]]; cbn; [reflexivity|].
  destruct (N.eqb_spec (n_cid n) claimed); [contradiction | reflexivity].
Qed.

(* an archive with an entry whose bytes do not match its identifier is never restored *)
Lemma tampered_entry_not_restored ha fs1 claimed content fs2 :
  bad_entry claimed content -> exists e, restore ha (fs1 ++ FEntry claimed content :: fs2) = inr e.
Proof.
  intros Hb. unfold restore. rewrite rfiles_app.
  destruct (rfiles rinit fs1) as [s1|e]; [|exists e; reflexivity].
  cbn [rfiles]. rewrite (bad_entry_step s1 _ _ Hb). exists Rejected. reflexivity.
Qed.

Definition is_key (w : keyname) (f : file) : bool :=
  match f, w with FKey KAccount _, KAccount | FKey KProof _, KProof => true | _, _ => false end.

Definition key_of (w : keyname) (s : rstate) : option blob :=
  match w with KAccount => r_account s | KProof => r_proof s end.

Lemma step_keeps_none w s f s' :
  is_key w f = false -> rstep s f = inl s' -> key_of w s' = key_of w s.
Proof.
  destruct f as [w' b|claimed [n|]|g [|] meta msg|]; cbn; intros Hk H.
  - destruct b; try discriminate;
      destruct w', w; cbn in Hk; try discriminate;
      cbn in H; [destruct (r_account s) | destruct (r_proof s) | destruct (r_account s) | destruct (r_proof s)];
      try discriminate; inversion H; reflexivity.
  - destruct (n_cid n =? claimed); [|discriminate]. inversion H. destruct w; reflexivity.
  - discriminate.
  - destruct (load (r_dag s) meta), (load (r_dag s) msg); try discriminate. inversion H. destruct w; reflexivity.
  - discriminate.
  - inversion H. reflexivity.
Qed.

Lemma files_keep_none w fs : forall s s',
  forallb (fun f => negb (is_key w f)) fs = true -> rfiles s fs = inl s' -> key_of w s' = key_of w s.
Proof.
  induction fs as [|f fs IH]; intros s s' Hall H; cbn in *.
  - inversion H. reflexivity.
  - apply andb_true_iff in Hall. destruct Hall as [Hf Hfs]. apply negb_true_iff in Hf.
    destruct (rstep s f) as [s1|e] eqn:E; [|discriminate].
    rewrite (IH s1 s' Hfs H). apply (step_keeps_none w s f s1 Hf E).
Qed.

(* a missing key file *)
Lemma missing_key_rejected ha w fs :
  forallb (fun f => negb (is_key w f)) fs = true -> exists e, restore ha fs = inr e.
Proof.
  intros Hall. unfold restore.
  destruct (rfiles rinit fs) as [s|e] eqn:E; [|exists e; reflexivity].
  pose proof (files_keep_none w fs rinit s Hall E) as Hk.
  exists Rejected. unfold import_ok.
  destruct w; cbn in Hk; rewrite Hk; [reflexivity|]. destruct (r_account s) as [[x| |]|]; reflexivity.
Qed.

Lemma step_keeps_some w s f s' : key_of w s <> None -> rstep s f = inl s' -> key_of w s' <> None.
Proof.
  destruct f as [w' b|claimed [n|]|g [|] meta msg|]; cbn; intros Hk H.
  - destruct b; try discriminate; destruct w'; cbn in H;
      [destruct (r_account s) eqn:Ea | destruct (r_proof s) eqn:Ep | destruct (r_account s) eqn:Ea | destruct (r_proof s) eqn:Ep];
      try discriminate; inversion H; subst; destruct w; cbn in *; congruence.
  - destruct (n_cid n =? claimed); [|discriminate]. inversion H. destruct w; exact Hk.
  - discriminate.
  - destruct (load (r_dag s) meta), (load (r_dag s) msg); try discriminate. inversion H. destruct w; exact Hk.
  - discriminate.
  - inversion H. subst. exact Hk.
Qed.

Lemma files_keep_some w fs : forall s s', key_of w s <> None -> rfiles s fs = inl s' -> key_of w s' <> None.
Proof.
  induction fs as [|f fs IH]; intros s s' Hk H; cbn in H.
  - inversion H. subst. exact Hk.
  - destruct (rstep s f) as [s1|e] eqn:E; [|discriminate].
    apply (IH s1 s'); [apply (step_keeps_some w s f s1 Hk E) | exact H].
Qed.

Lemma key_step_sets w b s s' : rstep s (FKey w b) = inl s' -> key_of w s' <> None.
Proof.
  cbn. destruct b; try discriminate; destruct w;
    [destruct (r_account s) | destruct (r_proof s) | destruct (r_account s) | destruct (r_proof s)];
    try discriminate; intros H; inversion H; cbn; discriminate.
Qed.

Lemma key_step_when_set w b s : key_of w s <> None -> rstep s (FKey w b) = inr Rejected.
Proof.
  intros Hk. cbn. destruct b; try reflexivity; destruct w; cbn in Hk;
    [destruct (r_account s) | destruct (r_proof s) | destruct (r_account s) | destruct (r_proof s)];
    try reflexivity; contradiction.
Qed.

(* a duplicated key file (equal or different content, adjacent or not) *)
Lemma duplicate_key_rejected ha w b1 b2 fs1 fs2 fs3 :
  exists e, restore ha (fs1 ++ FKey w b1 :: fs2 ++ FKey w b2 :: fs3) = inr e.
Proof.
  unfold restore. rewrite rfiles_app.
  destruct (rfiles rinit fs1) as [s1|e]; [|exists e; reflexivity].
  cbn [rfiles]. destruct (rstep s1 (FKey w b1)) as [s2|e] eqn:E1; [|exists e; reflexivity].
  rewrite rfiles_app.
  destruct (rfiles s2 fs2) as [s3|e] eqn:E2; [|exists e; reflexivity].
  cbn [rfiles].
  rewrite (key_step_when_set w b2 s3); [exists Rejected; reflexivity|].
  apply (files_keep_some w fs2 s2 s3); [apply (key_step_sets w b1 s1 s2 E1) | exact E2].
Qed.

(* restoring onto a store that already holds an account *)
Lemma existing_account_rejected fs : exists e, restore true fs = inr e.
Proof.
  unfold restore. destruct (rfiles rinit fs) as [s|e]; [|exists e; reflexivity].
  exists Rejected. unfold import_ok. destruct (r_account s) as [[x| |]|]; try reflexivity.
  destruct (r_proof s) as [[y| |]|]; reflexivity.
Qed.

Lemma malformed_keys_rejected ha fs s :
  rfiles rinit fs = inl s ->
  (forall x, r_account s <> Some (BKey x)) \/ (forall y, r_proof s <> Some (BKey y)) \/
  (exists x, r_account s = Some (BKey x) /\ r_proof s = Some (BKey x)) ->
  restore ha fs = inr Rejected.
Proof.
  intros E H. unfold restore. rewrite E. unfold import_ok.
  destruct (r_account s) as [[x| |]|] eqn:Ea; destruct (r_proof s) as [[y| |]|] eqn:Ep; try reflexivity.
  destruct H as [H|[H|[z [H1 H2]]]].
  - exfalso. apply (H x). reflexivity.
  - exfalso. apply (H y). reflexivity.
  - inversion H1; inversion H2; subst. rewrite N.eqb_refl, andb_false_r. reflexivity.
Qed.

(* ---------- round trip ---------- *)

Definition cids (ns : list node) : list N := map n_cid ns.

Definition wf_log (l : glog) : Prop :=
  (forall h, In h (gl_heads l) -> In h (cids (gl_entries l))) /\
  (forall n a, In n (gl_entries l) -> In a (n_anc n) -> In a (cids (gl_entries l))) /\
  (forall c, In c (cids (gl_entries l)) ->
             In c (gl_heads l) \/ exists n, In n (gl_entries l) /\ In (n_cid n) (gl_heads l) /\ In c (n_anc n)).

Definition group_nodes (g : xgroup) : list node := gl_entries (xg_meta g) ++ gl_entries (xg_msg g).
Definition all_nodes (gs : list xgroup) : list node := flat_map group_nodes gs.

Definition wf (s : xstate) : Prop :=
  xs_account s <> xs_proof s /\
  NoDup (cids (all_nodes (xs_groups s))) /\
  NoDup (map xg_id (xs_groups s)) /\
  forall g, In g (xs_groups s) -> wf_log (xg_meta g) /\ wf_log (xg_msg g).

Lemma find_in_nodup d n : NoDup (cids d) -> In n d -> find_node (n_cid n) d = Some n.
Proof.
  induction d as [|m d IH]; intros Hnd Hin; [destruct Hin|].
  cbn. cbn in Hnd. inversion Hnd as [|? ? Hni Hnd']; subst.
  destruct Hin as [->|Hin].
  - rewrite N.eqb_refl. reflexivity.
  - destruct (N.eqb_spec (n_cid m) (n_cid n)) as [E|_]; [|apply IH; assumption].
    exfalso. apply Hni. rewrite E. apply in_map. exact Hin.
Qed.

Lemma present_in d c : NoDup (cids d) -> In c (cids d) -> present d c = true.
Proof.
  intros Hnd Hin. apply in_map_iff in Hin. destruct Hin as [n [<- Hn]].
  unfold present. rewrite (find_in_nodup d n Hnd Hn). reflexivity.
Qed.

(* loading the heads of a well-formed log from a DAG that holds its entries yields the log *)
Lemma load_log d l :
  NoDup (cids d) -> incl (gl_entries l) d -> wf_log l ->
  exists need, load d (gl_heads l) = Some (mkRlog (gl_heads l) need) /\
               forall c, In c need <-> In c (cids (gl_entries l)).
Proof.
  intros Hnd Hincl [Hh [Ha Hc]].
  assert (Hsub : forall c, In c (cids (gl_entries l)) -> In c (cids d)).
  { intros c Hin. apply in_map_iff in Hin. destruct Hin as [n [<- Hn]]. apply in_map. apply Hincl. exact Hn. }
  set (need := gl_heads l ++ flat_map (fun h => match find_node h d with Some n => n_anc n | None => [] end) (gl_heads l)).
  assert (Hneed : forall c, In c need <-> In c (cids (gl_entries l))).
  { intros c. unfold need. rewrite in_app_iff, in_flat_map. split.
    - intros [H|[h [Hhd Hin]]]; [apply Hh; exact H|].
      pose proof (Hh h Hhd) as Hhe. apply in_map_iff in Hhe. destruct Hhe as [n [En Hn]].
      subst h. rewrite (find_in_nodup d n Hnd (Hincl n Hn)) in Hin. apply (Ha n c Hn Hin).
    - intros Hin. destruct (Hc c Hin) as [H|[n [Hn [Hnh Hcn]]]]; [left; exact H|].
      right. exists (n_cid n). split; [exact Hnh|].
      rewrite (find_in_nodup d n Hnd (Hincl n Hn)). exact Hcn. }
  exists need. split; [|exact Hneed].
  unfold load.
  assert (H1 : forallb (present d) (gl_heads l) = true).
  { apply forallb_forall. intros h Hin. apply present_in; [exact Hnd|]. apply Hsub. apply Hh. exact Hin. }
  rewrite H1. fold need.
  assert (H2 : forallb (present d) need = true).
  { apply forallb_forall. intros c Hin. apply present_in; [exact Hnd|]. apply Hsub. apply Hneed. exact Hin. }
  rewrite H2. reflexivity.
Qed.

Definition add_nodes (s : rstate) (ns : list node) : rstate :=
  mkRS (rev ns ++ r_dag s) (r_account s) (r_proof s) (r_logs s).

Lemma entries_accepted ns : forall s rest,
  rfiles s (map (fun n => FEntry (n_cid n) (Some n)) ns ++ rest) = rfiles (add_nodes s ns) rest.
Proof.
  induction ns as [|n ns IH]; intros s rest.
  - unfold add_nodes. cbn. destruct s; reflexivity.
  - cbn [map app rfiles rstep]. rewrite N.eqb_refl. rewrite IH. f_equal.
    unfold add_nodes. cbn. rewrite <- app_assoc. reflexivity.
Qed.

Definition group_result (g : xgroup) (lm ls : rlog) : Prop :=
  rl_heads lm = gl_heads (xg_meta g) /\ (forall c, In c (rl_entries lm) <-> In c (cids (gl_entries (xg_meta g)))) /\
  rl_heads ls = gl_heads (xg_msg g) /\ (forall c, In c (rl_entries ls) <-> In c (cids (gl_entries (xg_msg g)))).

(* one group of the archive *)
Lemma group_restored s g rest :
  NoDup (cids (rev (group_nodes g) ++ r_dag s)) -> wf_log (xg_meta g) -> wf_log (xg_msg g) ->
  exists lm ls, group_result g lm ls /\
    rfiles s (export_group g ++ rest) =
    rfiles (mkRS (rev (group_nodes g) ++ r_dag s) (r_account s) (r_proof s) ((xg_id g, (lm, ls)) :: r_logs s)) rest.
Proof.
  intros Hnd Hm Hs. unfold export_group.
  rewrite <- !app_assoc. rewrite entries_accepted, entries_accepted.
  set (s2 := add_nodes (add_nodes s (gl_entries (xg_meta g))) (gl_entries (xg_msg g))).
  assert (Hdag : r_dag s2 = rev (group_nodes g) ++ r_dag s).
  { unfold s2, add_nodes, group_nodes. cbn. rewrite rev_app_distr, <- app_assoc. reflexivity. }
  assert (Hnd2 : NoDup (cids (r_dag s2))) by (rewrite Hdag; exact Hnd).
  assert (Hin_m : incl (gl_entries (xg_meta g)) (r_dag s2)).
  { intros n Hn. rewrite Hdag. apply in_or_app. left. apply -> in_rev. unfold group_nodes. apply in_or_app. left. exact Hn. }
  assert (Hin_s : incl (gl_entries (xg_msg g)) (r_dag s2)).
  { intros n Hn. rewrite Hdag. apply in_or_app. left. apply -> in_rev. unfold group_nodes. apply in_or_app. right. exact Hn. }
  destruct (load_log (r_dag s2) (xg_meta g) Hnd2 Hin_m Hm) as [nm [Lm Em]].
  destruct (load_log (r_dag s2) (xg_msg g) Hnd2 Hin_s Hs) as [ns [Ls Es]].
  exists (mkRlog (gl_heads (xg_meta g)) nm), (mkRlog (gl_heads (xg_msg g)) ns).
  split; [repeat split; cbn; try apply Em; try apply Es|].
  cbn [app rfiles rstep]. rewrite Lm, Ls. f_equal.
  unfold s2, add_nodes in *. cbn in *. rewrite Hdag. reflexivity.
Qed.

Lemma nodup_rotate (A O B : list N) : NoDup ((A ++ O) ++ B) -> NoDup (O ++ rev A ++ B).
Proof.
  intros H. eapply Permutation_NoDup; [|exact H].
  rewrite <- app_assoc.
  eapply perm_trans; [apply Permutation_app_comm|].
  rewrite <- app_assoc. apply Permutation_app_head.
  eapply perm_trans; [apply Permutation_app_comm|].
  apply Permutation_app_tail. apply Permutation_rev.
Qed.

Lemma nodup_app_r {A} (a b : list A) : NoDup (a ++ b) -> NoDup b.
Proof. induction a as [|x a IH]; cbn; intros H; [exact H|]. inversion H; subst. apply IH. assumption. Qed.

Lemma lookup_in_fst k x l : lookup_log k l = Some x -> In k (map fst l).
Proof.
  induction l as [|[k' y] l IH]; cbn; [discriminate|].
  destruct (N.eqb_spec k' k); [intros _; left; assumption | intros H; right; apply IH; exact H].
Qed.

(* all groups: the logs of every group are recorded, earlier ones are kept *)
Lemma groups_restored gs : forall s,
  NoDup (cids (all_nodes gs) ++ cids (r_dag s)) -> NoDup (map xg_id gs) ->
  (forall g, In g gs -> ~ In (xg_id g) (map fst (r_logs s))) ->
  (forall g, In g gs -> wf_log (xg_meta g) /\ wf_log (xg_msg g)) ->
  exists s', rfiles s (flat_map export_group gs) = inl s' /\
             r_account s' = r_account s /\ r_proof s' = r_proof s /\
             (forall g x, lookup_log g (r_logs s) = Some x -> lookup_log g (r_logs s') = Some x) /\
             (forall g, In g gs -> exists lm ls, lookup_log (xg_id g) (r_logs s') = Some (lm, ls) /\ group_result g lm ls).
Proof.
  induction gs as [|g gs IH]; intros s Hnd Hids Hfresh Hwf.
  - exists s. cbn. repeat split; try reflexivity; [intros; assumption | intros g []].
  - cbn [flat_map].
    assert (Hrot : NoDup (cids (all_nodes gs) ++ cids (rev (group_nodes g) ++ r_dag s))).
    { unfold cids in *. cbn [all_nodes flat_map] in Hnd. rewrite map_app in Hnd.
      rewrite map_app, map_rev. apply nodup_rotate. exact Hnd. }
    assert (Hperm : NoDup (cids (rev (group_nodes g) ++ r_dag s))).
    { exact (nodup_app_r _ _ Hrot). }
    destruct (Hwf g (or_introl eq_refl)) as [Hm Hs].
    destruct (group_restored s g (flat_map export_group gs) Hperm Hm Hs) as [lm [ls [Hres Heq]]].
    rewrite Heq.
    set (s1 := mkRS (rev (group_nodes g) ++ r_dag s) (r_account s) (r_proof s) ((xg_id g, (lm, ls)) :: r_logs s)).
    inversion Hids as [|? ? Hgid Hids']; subst.
    destruct (IH s1) as [s' [E [Ha [Hp [Hkeep Hall]]]]].
    + exact Hrot.
    + exact Hids'.
    + intros g' Hg'. cbn [r_logs s1 map fst]. intros [E|Hin].
      * apply Hgid. rewrite E. apply in_map. exact Hg'.
      * apply (Hfresh g' (or_intror Hg')). exact Hin.
    + intros g' Hg'. apply Hwf. right. exact Hg'.
    + exists s'. split; [exact E|]. split; [exact Ha|]. split; [exact Hp|]. split.
      * intros k x Hk. apply Hkeep. cbn [r_logs s1 lookup_log].
        destruct (N.eqb_spec (xg_id g) k) as [Ek|_]; [|exact Hk].
        exfalso. apply (Hfresh g (or_introl eq_refl)). rewrite Ek. apply (lookup_in_fst k x _ Hk).
      * intros g' [<-|Hg'].
        -- exists lm, ls. split; [|exact Hres]. apply Hkeep. cbn [r_logs s1 lookup_log]. rewrite N.eqb_refl. reflexivity.
        -- apply Hall. exact Hg'.
Qed.

(* restoring an export into an empty node: same keys; for every exported group a log with exactly
   the same entries and heads *)
Lemma restore_export s :
  wf s ->
  exists r, restore false (export s) = inl r /\
            r_account r = Some (BKey (xs_account s)) /\ r_proof r = Some (BKey (xs_proof s)) /\
            forall g, In g (xs_groups s) ->
                      exists lm ls, lookup_log (xg_id g) (r_logs r) = Some (lm, ls) /\ group_result g lm ls.
Proof.
  intros [Hk [Hnd [Hids Hwf]]]. unfold restore, export. cbn [rfiles rstep rinit r_account r_proof r_dag r_logs].
  set (s0 := mkRS [] (Some (BKey (xs_account s))) (Some (BKey (xs_proof s))) []).
  destruct (groups_restored (xs_groups s) s0) as [s' [E [Ha [Hp [_ Hall]]]]].
  - cbn. rewrite app_nil_r. exact Hnd.
  - exact Hids.
  - intros g _ [].
  - exact Hwf.
  - rewrite E. unfold import_ok. rewrite Ha, Hp. cbn [s0 r_account r_proof negb andb].
    destruct (N.eqb_spec (xs_account s) (xs_proof s)); [contradiction|]. cbn.
    exists s'. repeat split; try assumption.
Qed.

(* non-vacuity: a two-group state with a merge (two heads) satisfies wf *)
Definition ex_state : xstate :=
  mkXS 1 2 [mkXG 10 (mkGlog [mkNode 100 []; mkNode 101 [100]; mkNode 102 [100]; mkNode 103 [101; 100]] [102; 103]) (mkGlog [] []);
            mkXG 11 (mkGlog [mkNode 200 []] [200]) (mkGlog [mkNode 300 []; mkNode 301 [300]] [301])].

Example ex_restores :
  match restore false (export ex_state) with
  | inl r => same_set (match lookup_log 10 (r_logs r) with Some (lm, _) => rl_entries lm | None => [] end) [100; 101; 102; 103]
  | inr _ => false
  end = true.
Proof. vm_compute. reflexivity. Qed.
