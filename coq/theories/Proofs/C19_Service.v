(* C19 — proofs over the generated handler table. *)
From Coq Require Import List NArith Bool String Lia Arith.
From Wesh Require Import Gen.Handlers GenFacts.HandlersFacts Model.C19_Service.
Import ListNotations.

Lemma find_row_in name t r : find_row name t = Some r -> In r t.
Proof.
  induction t as [|[[[n u] g] p] t IH]; cbn; [discriminate|].
  destruct (String.eqb n name); [intros H; inversion H; left; reflexivity | intros H; right; apply IH; exact H].
Qed.

(* no handler of the current source panics for lack of the account group or by an explicit panic,
   whether the account group is active or not *)
Lemma handlers_never_panic r active : In r handler_table -> handle r active <> Panics.
Proof.
  intros Hin. pose proof handlers_guarded as H. rewrite forallb_forall in H. specialize (H r Hin).
  destruct r as [[[n u] g] p]. cbn in H. apply andb_true_iff in H. destruct H as [Hg Hp].
  apply negb_true_iff in Hp. subst. cbn. destruct u, active; discriminate.
Qed.

(* with the account group deactivated, a handler that needs it answers with an error *)
Lemma deactivated_account_group_refused n g p :
  In (n, true, g, p) handler_table -> handle (n, true, g, p) false = Refuses.
Proof.
  intros Hin. pose proof handlers_guarded as H. rewrite forallb_forall in H. specialize (H _ Hin).
  cbn in H. apply andb_true_iff in H. destruct H as [Hg Hp]. apply negb_true_iff in Hp. subst. reflexivity.
Qed.

(* without the guards the same handlers would crash: the model can exhibit the failure *)
Lemma unguarded_handler_panics n : handle (n, true, false, false) false = Panics.
Proof. reflexivity. Qed.

Lemma explicit_panic_panics n u g a : handle (n, u, g, true) a = Panics.
Proof. reflexivity. Qed.

(* the decrypt helpers never slice out of bounds, for every input length *)
Lemma aesgcm_split_safe len nonce : aesgcm_split aesgcm_decrypt_length_guard len nonce <> SlicePanic.
Proof.
  destruct helper_guards as [Hg _]. rewrite Hg. unfold aesgcm_split. cbn [andb].
  destruct (Nat.ltb_spec len nonce) as [Hlt|Hge]; [discriminate|].
  destruct (Nat.leb_spec nonce len); [discriminate | lia].
Qed.

Lemma aesgcm_split_unguarded_panics : aesgcm_split false 0 12 = SlicePanic.
Proof. reflexivity. Qed.

Lemma aesctr_stream_safe iv block : aesctr_stream aesctr_iv_length_guard iv block <> SlicePanic.
Proof.
  destruct helper_guards as [_ Hg]. rewrite Hg. unfold aesctr_stream. cbn [andb].
  destruct (Nat.eqb iv block); cbn; discriminate.
Qed.

(* ---------- fixed-size conversions ---------- *)
Lemma fixed_size_safe len size : fixed_size true len size <> SlicePanic.
Proof. unfold fixed_size. cbn [andb]. destruct (Nat.eqb len size); cbn [negb]; discriminate. Qed.

Lemma group_secret_safe len : fixed_size group_secret_length_guard len 32 <> SlicePanic.
Proof. destruct fixed_size_guards as [Hg _]. rewrite Hg. apply fixed_size_safe. Qed.

Lemma push_nonce_safe len : fixed_size push_nonce_length_checked len 24 <> SlicePanic.
Proof. destruct fixed_size_guards as [_ Hg]. rewrite Hg. apply fixed_size_safe. Qed.

Lemma fixed_size_unguarded_panics len size : len <> size -> fixed_size false len size = SlicePanic.
Proof. intros H. unfold fixed_size. cbn [andb]. destruct (Nat.eqb_spec len size); [contradiction | reflexivity]. Qed.
