(* C15 — the priority queue: container/heap on a list (Model.C15_Queue: swap, up, down,
   heap_push, heap_pop).  Push and pop keep the heap order and the multiset of items; a pop returns
   a minimum; draining returns the items in ascending order. *)
From Coq Require Import List NArith ZArith Bool Lia ZifyN ZifyNat ZifyBool Permutation Arith Sorted.
From Wesh Require Import Model.C15_Queue.
Import ListNotations.
Open Scope nat_scope.

(* ---------- arrays as lists ---------- *)

Definition get (l : list N) (k : nat) : option N := nth_error l k.

Lemma nth_error_combine_seq {A} (f : nat * A -> A) (l : list A) (s k : nat) :
  nth_error (map f (combine (seq s (length l)) l)) k = option_map (fun x => f (s + k, x)) (nth_error l k).
Proof.
  revert s k. induction l as [|x l IH]; intros s k; cbn.
  - destruct k; reflexivity.
  - destruct k; cbn.
    + rewrite Nat.add_0_r. reflexivity.
    + rewrite IH. replace (S s + k) with (s + S k) by lia. reflexivity.
Qed.

Lemma swap_length l i j : length (swap l i j) = length l.
Proof.
  unfold swap. destruct (nth_error l i), (nth_error l j); try reflexivity.
  rewrite map_length, combine_length, seq_length. lia.
Qed.

Lemma get_swap l i j k a b :
  get l i = Some a -> get l j = Some b ->
  get (swap l i j) k = if Nat.eqb k i then Some b else if Nat.eqb k j then Some a else get l k.
Proof.
  unfold get, swap. intros Hi Hj. rewrite Hi, Hj.
  rewrite nth_error_combine_seq. cbn [Nat.add fst snd].
  destruct (nth_error l k) as [x|] eqn:Ek; cbn.
  - destruct (Nat.eqb k i); [reflexivity|]. destruct (Nat.eqb k j); reflexivity.
  - destruct (Nat.eqb_spec k i) as [->|_]; [congruence|]. destruct (Nat.eqb_spec k j) as [->|_]; [congruence|]. reflexivity.
Qed.

Lemma get_some l k : k < length l -> exists x, get l k = Some x.
Proof. intros H. unfold get. destruct (nth_error l k) eqn:E; [eauto|]. apply nth_error_None in E. lia. Qed.

Lemma get_lt l k x : get l k = Some x -> k < length l.
Proof. intros H. unfold get in H. apply nth_error_Some. congruence. Qed.

Lemma nth_error_ext {A} (l l' : list A) : (forall k, nth_error l k = nth_error l' k) -> l = l'.
Proof.
  revert l'. induction l as [|x l IH]; intros l' H.
  - destruct l' as [|y l']; [reflexivity|]. specialize (H 0). discriminate.
  - destruct l' as [|y l']; [specialize (H 0); discriminate|].
    pose proof (H 0) as H0. cbn in H0. inversion H0; subst. f_equal. apply IH. intros k. apply (H (S k)).
Qed.

(* counting-based permutation *)
Definition cntN (x : N) (l : list N) : nat := count_occ N.eq_dec l x.

Lemma perm_of_get (l l' : list N) :
  length l = length l' ->
  (exists i j, i < length l /\ j < length l /\ get l' i = get l j /\ get l' j = get l i /\
               forall k, k <> i -> k <> j -> get l' k = get l k) ->
  Permutation l' l.
Proof.
  intros Hlen [i [j [Hi [Hj [Eij [Eji Hk]]]]]].
  destruct (Nat.eq_dec i j) as [->|Hne].
  - (* same list *)
    assert (E : l' = l).
    { apply nth_error_ext. intros k. destruct (Nat.eq_dec k j) as [->|H]; [exact Eij | apply Hk; assumption]. }
    rewrite E. reflexivity.
  - (* wlog i < j *)
    assert (G : forall i j, i < j -> j < length l -> get l' i = get l j -> get l' j = get l i ->
                (forall k, k <> i -> k <> j -> get l' k = get l k) -> Permutation l' l).
    { clear. intros i j Hij Hj Eij Eji Hk.
      assert (Hi : i < length l) by lia.
      destruct (get_some l i Hi) as [a Ha]. destruct (get_some l j Hj) as [b Hb].
      (* split l at i and j *)
      destruct (nth_error_split l i Ha) as [l1 [r1 [El Hl1]]].
      assert (Hb' : nth_error r1 (j - i - 1) = Some b).
      { unfold get in Hb. rewrite El in Hb. rewrite nth_error_app2 in Hb by lia.
        rewrite Hl1 in Hb. replace (j - i) with (S (j - i - 1)) in Hb by lia. exact Hb. }
      destruct (nth_error_split r1 (j - i - 1) Hb') as [l2 [r2 [Er Hl2]]].
      assert (E' : l' = l1 ++ b :: l2 ++ a :: r2).
      { apply nth_error_ext. intros k. fold (get l' k).
        destruct (Nat.eq_dec k i) as [->|Hki].
        - rewrite Eij, Hb. rewrite nth_error_app2 by lia. rewrite Hl1, Nat.sub_diag. reflexivity.
        - destruct (Nat.eq_dec k j) as [->|Hkj].
          + rewrite Eji, Ha. rewrite nth_error_app2 by lia. rewrite Hl1.
            replace (j - i) with (S (j - i - 1)) by lia. cbn. rewrite nth_error_app2 by lia.
            rewrite Hl2, Nat.sub_diag. reflexivity.
          + rewrite (Hk k Hki Hkj). unfold get. rewrite El, Er.
            destruct (Nat.lt_ge_cases k i) as [Hlt|Hge].
            * rewrite !nth_error_app1 by lia. reflexivity.
            * rewrite !nth_error_app2 by lia. rewrite Hl1.
              destruct (k - i) as [|m] eqn:Em; [lia|]. cbn.
              destruct (Nat.lt_ge_cases m (length l2)) as [Hm|Hm].
              -- rewrite !nth_error_app1 by lia. reflexivity.
              -- rewrite !nth_error_app2 by lia.
                 destruct (m - length l2) as [|m'] eqn:Em'; [lia|]. reflexivity. }
      rewrite E', El, Er.
      apply Permutation_app_head.
      (* b :: l2 ++ a :: r2  ~  a :: l2 ++ b :: r2 *)
      transitivity (b :: a :: l2 ++ r2).
      { apply perm_skip. symmetry. apply Permutation_middle. }
      transitivity (a :: b :: l2 ++ r2); [apply perm_swap|].
      apply perm_skip. apply Permutation_middle. }
    destruct (Nat.lt_ge_cases i j) as [Hlt|Hge].
    + apply (G i j); assumption.
    + apply (G j i); try assumption; try lia. intros k H1 H2. apply Hk; assumption.
Qed.

Lemma swap_perm l i j : Permutation (swap l i j) l.
Proof.
  destruct (get l i) as [a|] eqn:Ei; [|unfold swap, get in *; rewrite Ei; reflexivity].
  destruct (get l j) as [b|] eqn:Ej; [|unfold swap, get in *; rewrite Ei, Ej; reflexivity].
  apply perm_of_get; [symmetry; apply swap_length|].
  exists i, j. split; [eapply get_lt; eassumption|]. split; [eapply get_lt; eassumption|].
  rewrite !(get_swap l i j _ a b Ei Ej). rewrite Nat.eqb_refl.
  split; [congruence|]. split.
  - destruct (Nat.eqb_spec j i) as [->|_]; [congruence|]. rewrite Nat.eqb_refl. congruence.
  - intros k H1 H2. rewrite (get_swap l i j k a b Ei Ej).
    destruct (Nat.eqb_spec k i); [contradiction|]. destruct (Nat.eqb_spec k j); [contradiction|]. reflexivity.
Qed.

(* ---------- heap order ---------- *)

Definition parent (k : nat) : nat := (k - 1) / 2.

Definition le_at (l : list N) (i j : nat) : Prop :=
  match get l i, get l j with Some a, Some b => (a <= b)%N | _, _ => True end.

(* heap order on the first n positions *)
Definition heap_on (l : list N) (n : nat) : Prop := forall k, 0 < k -> k < n -> le_at l (parent k) k.
Definition heap_ok (l : list N) : Prop := heap_on l (length l).

Lemma lessb_spec l i j a b : get l i = Some a -> get l j = Some b -> lessb l i j = (a <? b)%N.
Proof. unfold lessb, get. intros -> ->. reflexivity. Qed.

Lemma parent_lt k : 0 < k -> parent k < k.
Proof. intros H. unfold parent. apply Nat.div_lt_upper_bound; lia. Qed.

Lemma parent_children i k : parent k = i -> 0 < k -> k = 2 * i + 1 \/ k = 2 * i + 2.
Proof.
  unfold parent. intros H Hk.
  pose proof (Nat.div_mod (k - 1) 2 ltac:(lia)) as E. rewrite H in E.
  pose proof (Nat.mod_upper_bound (k - 1) 2 ltac:(lia)). lia.
Qed.

Lemma parent_child1 i : parent (2 * i + 1) = i.
Proof. unfold parent. replace (2 * i + 1 - 1) with (i * 2) by lia. apply Nat.div_mul. lia. Qed.
Lemma parent_child2 i : parent (2 * i + 2) = i.
Proof.
  unfold parent. replace (2 * i + 2 - 1) with (1 + i * 2) by lia. rewrite Nat.div_add by lia. reflexivity.
Qed.

(* ---------- sift up ---------- *)

(* heap order everywhere except on the edge into j, with the grandparent of j below j's children *)
Definition up_pre (l : list N) (j : nat) : Prop :=
  (forall k, 0 < k -> k < length l -> k <> j -> le_at l (parent k) k) /\
  (0 < j -> forall k, 0 < k -> k < length l -> parent k = j -> le_at l (parent j) k).

Lemma up_heap fuel : forall l j, j < fuel -> j < length l -> up_pre l j -> heap_ok (up fuel l j).
Proof.
  induction fuel as [|f IH]; intros l j Hf Hj [P1 P2]; [lia|].
  cbn [up]. destruct j as [|j'].
  - intros k Hk Hkl. apply P1; lia.
  - set (j := S j') in *. set (i := parent j).
    assert (Hij : i < j) by (apply parent_lt; lia).
    destruct (get_some l j Hj) as [b Hb]. destruct (get_some l i ltac:(lia)) as [a Ha].
    change (Nat.div (j - 1) 2) with i.
    rewrite (lessb_spec l j i b a Hb Ha).
    destruct (N.ltb_spec b a) as [Hlt|Hge].
    + (* swap and continue at i *)
      apply IH; [lia | rewrite swap_length; lia|].
      assert (G : forall k, get (swap l i j) k = if Nat.eqb k i then Some b else if Nat.eqb k j then Some a else get l k)
        by (intros k; apply (get_swap l i j k a b Ha Hb)).
      split.
      * intros k Hk0 Hkl Hki. rewrite swap_length in Hkl. unfold le_at. rewrite !G.
        destruct (Nat.eqb_spec k i) as [->|_]; [contradiction|].
        destruct (Nat.eqb_spec k j) as [->|Hkj].
        -- (* k = j: parent is i *) fold i. rewrite Nat.eqb_refl. lia.
        -- destruct (Nat.eqb_spec (parent k) i) as [Epi|Hpi].
           ++ (* sibling of j *)
              pose proof (P1 k Hk0 Hkl Hkj) as H. unfold le_at in H. rewrite Epi, Ha in H.
              destruct (get l k); [lia | exact I].
           ++ destruct (Nat.eqb_spec (parent k) j) as [Epj|Hpj].
              ** (* child of j: grandparent rule *)
                 pose proof (P2 ltac:(lia) k Hk0 Hkl Epj) as H. unfold le_at in H. fold i in H. rewrite Ha in H.
                 destruct (get l k); [exact H | exact I].
              ** apply (P1 k Hk0 Hkl Hkj).
      * intros Hi0 k Hk0 Hkl Hpk. rewrite swap_length in Hkl. unfold le_at. rewrite !G.
        assert (Hpi : parent i < i) by (apply parent_lt; exact Hi0).
        destruct (Nat.eqb_spec (parent i) i); [lia|]. destruct (Nat.eqb_spec (parent i) j); [lia|].
        pose proof (P1 i Hi0 ltac:(lia) ltac:(lia)) as Hedge. unfold le_at in Hedge. rewrite Ha in Hedge.
        destruct (Nat.eqb_spec k i) as [->|_]; [lia|].
        destruct (Nat.eqb_spec k j) as [->|Hkj].
        -- destruct (get l (parent i)); [exact Hedge | exact I].
        -- pose proof (P1 k Hk0 Hkl Hkj) as H. unfold le_at in H. rewrite Hpk, Ha in H.
           destruct (get l (parent i)), (get l k); try exact I. lia.
    + (* the missing edge holds: heap *)
      intros k Hk0 Hkl. destruct (Nat.eq_dec k j) as [->|Hkj]; [|apply P1; assumption].
      unfold le_at. fold i. rewrite Ha, Hb. lia.
Qed.

Lemma up_perm fuel : forall l j, Permutation (up fuel l j) l.
Proof.
  induction fuel as [|f IH]; intros l j; cbn [up]; [reflexivity|].
  destruct j as [|j']; [reflexivity|].
  destruct (lessb l (S j') (Nat.div (S j' - 1) 2)); [|reflexivity].
  rewrite IH. apply swap_perm.
Qed.

Lemma up_length fuel : forall l j, length (up fuel l j) = length l.
Proof. intros l j. apply Permutation_length. apply up_perm. Qed.

(* ---------- sift down ---------- *)

Definition down_pre (l : list N) (i n : nat) : Prop :=
  (forall k, 0 < k -> k < n -> parent k <> i -> le_at l (parent k) k) /\
  (0 < i -> forall k, 0 < k -> k < n -> parent k = i -> le_at l (parent i) k).

Lemma down_heap fuel : forall l i n,
  n <= i + fuel -> n <= length l -> down_pre l i n -> heap_on (down fuel l i n) n.
Proof.
  induction fuel as [|f IH]; intros l i n Hf Hn [Q1 Q2].
  - cbn [down]. intros k Hk0 Hkn. apply Q1; try assumption.
    intros Hp. pose proof (parent_lt k Hk0). lia.
  - cbn [down]. set (j1 := 2 * i + 1).
    destruct (Nat.leb_spec n j1) as [Hle|Hgt].
    + (* no child *)
      intros k Hk0 Hkn. apply Q1; try assumption. intros Hp.
      destruct (parent_children i k Hp Hk0); lia.
    + set (j2 := j1 + 1).
      assert (Hi : i < length l) by lia.
      destruct (get_some l i Hi) as [a Ha]. destruct (get_some l j1 ltac:(lia)) as [c1 Hc1].
      set (j := if Nat.ltb j2 n && lessb l j2 j1 then j2 else j1).
      assert (Hjn : j < n /\ (j = j1 \/ j = j2) /\
                    exists c, get l j = Some c /\ (c <= c1)%N /\
                              (j2 < n -> forall c2, get l j2 = Some c2 -> (c <= c2)%N)).
      { unfold j. destruct (Nat.ltb_spec j2 n) as [H2|H2]; cbn [andb].
        - destruct (get_some l j2 ltac:(lia)) as [c2 Hc2].
          rewrite (lessb_spec l j2 j1 c2 c1 Hc2 Hc1).
          destruct (N.ltb_spec c2 c1).
          + split; [lia|]. split; [right; reflexivity|]. exists c2. split; [exact Hc2|]. split; [lia|].
            intros _ c2' E. rewrite Hc2 in E. inversion E. lia.
          + split; [lia|]. split; [left; reflexivity|]. exists c1. split; [exact Hc1|]. split; [lia|].
            intros _ c2' E. rewrite Hc2 in E. inversion E. lia.
        - split; [lia|]. split; [left; reflexivity|]. exists c1. split; [exact Hc1|]. split; [lia|]. intros; lia. }
      destruct Hjn as [Hjn [Hj12 [c [Hc [Hcc1 Hcc2]]]]].
      assert (Hpj : parent j = i).
      { destruct Hj12 as [->| ->]; unfold j2, j1; [apply parent_child1 | replace (2 * i + 1 + 1) with (2 * i + 2) by lia; apply parent_child2]. }
      assert (Hij : i < j) by (destruct Hj12 as [->| ->]; unfold j2, j1; lia).
      rewrite (lessb_spec l j i c a Hc Ha).
      destruct (N.ltb_spec c a) as [Hlt|Hge].
      * apply IH; [lia | rewrite swap_length; lia|].
        assert (G : forall k, get (swap l i j) k = if Nat.eqb k i then Some c else if Nat.eqb k j then Some a else get l k)
          by (intros k; apply (get_swap l i j k a c Ha Hc)).
        split.
        -- intros k Hk0 Hkn Hpk. unfold le_at. rewrite !G.
           destruct (Nat.eqb_spec k i) as [->|Hki].
           ++ (* the edge into i *)
              assert (Hpi : parent i < i) by (apply parent_lt; exact Hk0).
              destruct (Nat.eqb_spec (parent i) i); [lia|]. destruct (Nat.eqb_spec (parent i) j); [lia|].
              pose proof (Q2 Hk0 j ltac:(lia) Hjn Hpj) as H. unfold le_at in H. rewrite Hc in H.
              destruct (get l (parent i)); [exact H | exact I].
           ++ destruct (Nat.eqb_spec k j) as [->|Hkj].
              ** rewrite Hpj, Nat.eqb_refl. lia.
              ** destruct (Nat.eqb_spec (parent k) i) as [Epi|Hpi].
                 --- (* the other child of i *)
                     destruct (parent_children i k Epi Hk0) as [Ek|Ek].
                     +++ (* k = j1 *)
                         fold j1 in Ek. rewrite Ek, Hc1. lia.
                     +++ assert (Ek2 : k = j2) by (unfold j2, j1; lia).
                         destruct (get l k) as [c2|] eqn:Ec2; [|exact I].
                         rewrite Ek2 in Ec2, Hkn. apply (Hcc2 Hkn c2 Ec2).
                 --- destruct (Nat.eqb_spec (parent k) j); [contradiction|].
                     apply Q1; try assumption.
        -- intros _ k Hk0 Hkn Hpk. unfold le_at. rewrite !G. rewrite Hpj, Nat.eqb_refl.
           destruct (Nat.eqb_spec k i) as [->|_]; [pose proof (parent_lt i Hk0); lia|].
           destruct (Nat.eqb_spec k j) as [->|_]; [pose proof (parent_lt j Hk0); lia|].
           pose proof (Q1 k Hk0 Hkn ltac:(lia)) as H. unfold le_at in H. rewrite Hpk, Hc in H.
           destruct (get l k); [exact H | exact I].
      * (* i is not above its smaller child: heap *)
        intros k Hk0 Hkn. destruct (Nat.eq_dec (parent k) i) as [Epi|Hpi]; [|apply Q1; assumption].
        unfold le_at. rewrite Epi, Ha.
        destruct (parent_children i k Epi Hk0) as [Ek|Ek].
        -- fold j1 in Ek. rewrite Ek, Hc1. lia.
        -- assert (Ek2 : k = j2) by (unfold j2, j1; lia).
           destruct (get l k) as [c2|] eqn:Ec2; [|exact I].
           rewrite Ek2 in Ec2, Hkn. pose proof (Hcc2 Hkn c2 Ec2). lia.
Qed.

Lemma down_perm fuel : forall l i n, Permutation (down fuel l i n) l.
Proof.
  induction fuel as [|f IH]; intros l i n; cbn [down]; [reflexivity|].
  destruct (Nat.leb n (2 * i + 1)); [reflexivity|].
  match goal with |- context [lessb l ?j i] => destruct (lessb l j i) end; [|reflexivity].
  rewrite IH. apply swap_perm.
Qed.

(* positions at and beyond n are left alone *)
Lemma down_keeps fuel : forall l i n k, i < n -> n <= k -> get (down fuel l i n) k = get l k.
Proof.
  induction fuel as [|f IH]; intros l i n k Hin Hk; cbn [down]; [reflexivity|].
  destruct (Nat.leb_spec n (2 * i + 1)); [reflexivity|].
  set (j := if Nat.ltb (2 * i + 1 + 1) n && lessb l (2 * i + 1 + 1) (2 * i + 1) then 2 * i + 1 + 1 else 2 * i + 1).
  assert (Hj : j < n).
  { unfold j. destruct (Nat.ltb_spec (2 * i + 1 + 1) n); cbn [andb]; [destruct (lessb _ _ _); lia | lia]. }
  destruct (lessb l j i) eqn:El; [|reflexivity].
  rewrite IH by lia.
  unfold lessb in El. destruct (nth_error l j) as [c|] eqn:Ec; [|discriminate]. destruct (nth_error l i) as [a|] eqn:Ea; [|discriminate].
  rewrite (get_swap l i j k a c Ea Ec).
  destruct (Nat.eqb_spec k i); [lia|]. destruct (Nat.eqb_spec k j); [lia|]. reflexivity.
Qed.

(* ---------- the root of a heap is a minimum ---------- *)

Lemma heap_root_min l n : heap_on l n -> n <= length l ->
  forall k x r, k < n -> get l 0 = Some r -> get l k = Some x -> (r <= x)%N.
Proof.
  intros H Hn k. induction k as [k IHk] using lt_wf_ind. intros x r Hk Hr Hx.
  destruct k as [|k']; [rewrite Hr in Hx; inversion Hx; lia|].
  pose proof (parent_lt (S k') ltac:(lia)) as Hp.
  destruct (get_some l (parent (S k')) ltac:(lia)) as [y Hy].
  pose proof (IHk (parent (S k')) Hp y r ltac:(lia) Hr Hy) as H1.
  pose proof (H (S k') ltac:(lia) Hk) as H2. unfold le_at in H2. rewrite Hy, Hx in H2. lia.
Qed.

(* ---------- push and pop ---------- *)

Lemma heap_push_ok l x : heap_ok l -> heap_ok (heap_push l x) /\ Permutation (heap_push l x) (x :: l).
Proof.
  intros H. unfold heap_push. split.
  - apply up_heap; rewrite ?app_length; cbn [length]; try lia.
    split.
    + intros k Hk0 Hkl Hkj. rewrite app_length in Hkl. cbn [length] in Hkl.
      assert (Hk : k < length l) by lia.
      pose proof (H k Hk0 Hk) as E. unfold le_at, get in *.
      pose proof (parent_lt k Hk0).
      rewrite !nth_error_app1 by lia. exact E.
    + intros _ k Hk0 Hkl Hpk. rewrite app_length in Hkl. cbn [length] in Hkl.
      destruct (parent_children (length l) k Hpk Hk0); lia.
  - rewrite up_perm. rewrite Permutation_app_comm. reflexivity.
Qed.

Lemma firstn_get (l : list N) n k : k < n -> get (firstn n l) k = get l k.
Proof.
  unfold get. revert n k. induction l as [|x l IH]; intros n k H.
  - rewrite firstn_nil. reflexivity.
  - destruct n as [|n]; [lia|]. cbn [firstn]. destruct k as [|k]; [reflexivity|]. cbn. apply IH. lia.
Qed.

Lemma skipn_get (l : list N) n k : nth_error (skipn n l) k = nth_error l (n + k).
Proof.
  revert l. induction n as [|n IH]; intros l; [reflexivity|].
  destruct l as [|x l]; [destruct k; reflexivity|]. cbn. apply IH.
Qed.

Lemma heap_pop_ok l x l' :
  heap_ok l -> heap_pop l = Some (x, l') ->
  heap_ok l' /\ Permutation l (x :: l') /\ (forall y, In y l -> (x <= y)%N).
Proof.
  intros H Hp. unfold heap_pop in Hp.
  destruct l as [|h t] eqn:El; [discriminate|]. rewrite <- El in *.
  assert (Hlen : 0 < length l) by (rewrite El; cbn; lia).
  set (n := length l - 1) in *.
  set (l1 := swap l 0 n) in *. set (l2 := down (length l) l1 0 n) in *.
  destruct (nth_error l2 n) as [x'|] eqn:Ex; [|discriminate]. inversion Hp; subst x' l'. clear Hp.
  destruct (get_some l 0 Hlen) as [r Hr]. destruct (get_some l n ltac:(lia)) as [z Hz].
  assert (G1 : forall k, get l1 k = if Nat.eqb k 0 then Some z else if Nat.eqb k n then Some r else get l k)
    by (intros k; apply (get_swap l 0 n k r z Hr Hz)).
  assert (Hl1 : length l1 = length l) by apply swap_length.
  assert (Hl2 : length l2 = length l) by (apply Permutation_length; unfold l2; rewrite down_perm; apply swap_perm).
  (* what is returned is the old root *)
  assert (Hx : x = r).
  { destruct (Nat.eq_dec n 0) as [En|Hn0].
    - (* single element: down does nothing *)
      assert (E2 : get l2 n = get l1 n).
      { unfold l2. destruct (length l) as [|m]; [lia|]. cbn [down]. rewrite En. cbn. reflexivity. }
      unfold get in E2. rewrite Ex in E2. fold (get l1 n) in E2. rewrite G1 in E2. rewrite En in E2. cbn in E2.
      rewrite En in Hz. rewrite Hr in Hz. inversion Hz; subst. inversion E2. reflexivity.
    - pose proof (down_keeps (length l) l1 0 n n ltac:(lia) ltac:(lia)) as E2. fold l2 in E2.
      unfold get in E2 at 1. rewrite Ex in E2. rewrite G1 in E2.
      destruct (Nat.eqb_spec n 0); [contradiction|]. rewrite Nat.eqb_refl in E2. inversion E2. reflexivity. }
  subst x.
  (* heap on the first n positions after sifting down *)
  assert (Hheap : heap_on l2 n).
  { destruct (Nat.eq_dec n 0) as [En|Hn0]; [intros k Hk0 Hkn; lia|].
    unfold l2. apply down_heap; [lia | lia|].
    split.
    - intros k Hk0 Hkn Hpk. unfold le_at. rewrite !G1.
      pose proof (parent_lt k Hk0).
      destruct (Nat.eqb_spec (parent k) 0); [contradiction|]. destruct (Nat.eqb_spec (parent k) n); [lia|].
      destruct (Nat.eqb_spec k 0); [lia|]. destruct (Nat.eqb_spec k n); [lia|].
      apply (H k Hk0 ltac:(lia)).
    - intros H0; lia. }
  split; [|split].
  - intros k Hk0 Hk. rewrite firstn_length in Hk.
    pose proof (parent_lt k Hk0).
    unfold le_at. rewrite !firstn_get by lia. apply Hheap; lia.
  - (* multiset *)
    assert (P2 : Permutation l2 l) by (unfold l2; rewrite down_perm; apply swap_perm).
    rewrite <- P2.
    assert (E : l2 = firstn n l2 ++ [r]).
    { rewrite <- (firstn_skipn n l2) at 1. f_equal.
      assert (Hs : length (skipn n l2) = 1) by (rewrite skipn_length; lia).
      destruct (skipn n l2) as [|y [|? ?]] eqn:Es; cbn in Hs; try lia.
      f_equal. pose proof (skipn_get l2 n 0) as Hy. rewrite Es, Nat.add_0_r in Hy. cbn in Hy.
      rewrite Ex in Hy. inversion Hy. reflexivity. }
    rewrite E at 1. rewrite Permutation_app_comm. reflexivity.
  - intros y Hin. apply In_nth_error in Hin. destruct Hin as [k Hk].
    apply (heap_root_min l (length l) H (Nat.le_refl _) k y r); [apply nth_error_Some; congruence | exact Hr | exact Hk].
Qed.

Lemma heap_pop_nonempty l : l <> [] -> exists x l', heap_pop l = Some (x, l').
Proof.
  intros H. unfold heap_pop. destruct l as [|h t] eqn:El; [contradiction|]. rewrite <- El.
  set (n := length l - 1).
  assert (Hlen : length (down (length l) (swap l 0 n) 0 n) = length l).
  { apply Permutation_length. rewrite down_perm. apply swap_perm. }
  destruct (nth_error (down (length l) (swap l 0 n) 0 n) n) eqn:E; [eauto|].
  exfalso. apply nth_error_None in E. rewrite Hlen in E. unfold n in E. rewrite El in E. cbn [length] in E. lia.
Qed.

(* draining a heap yields all its items in ascending order *)
Lemma pop_all_sorted fuel : forall l, heap_ok l -> length l <= fuel ->
  Permutation (pop_all fuel l) l /\ StronglySorted (fun a b => (a <= b)%N) (pop_all fuel l).
Proof.
  induction fuel as [|f IH]; intros l H Hl.
  - destruct l; [|cbn in Hl; lia]. cbn. split; [reflexivity | constructor].
  - cbn [pop_all]. destruct l as [|h t] eqn:El.
    + cbn. split; [reflexivity | constructor].
    + rewrite <- El in *. destruct (heap_pop_nonempty l ltac:(rewrite El; discriminate)) as [x [l' Hp]].
      rewrite Hp. destruct (heap_pop_ok l x l' H Hp) as [H' [P Hmin]].
      assert (Hl' : length l' <= f) by (apply Permutation_length in P; cbn in P; lia).
      destruct (IH l' H' Hl') as [P' S'].
      split; [rewrite P'; symmetry; exact P|].
      constructor; [exact S'|].
      apply Forall_forall. intros y Hy. apply Hmin. rewrite P. right.
      eapply Permutation_in; [exact P' | exact Hy].
Qed.

Lemma heap_ok_nil : heap_ok [].
Proof. intros k H1 H2. cbn in H2. lia. Qed.

(* every queue state reached from the empty queue by Add / Next / NextAll is a heap *)
Lemma pqstep_heap l o : heap_ok l -> heap_ok (fst (pqstep l o)).
Proof.
  intros H. destruct o; cbn.
  - apply heap_push_ok. exact H.
  - destruct (heap_pop l) as [[x l']|] eqn:E; cbn; [apply (heap_pop_ok l x l' H E) | exact H].
  - apply heap_ok_nil.
  - exact H.
Qed.

(* ---------- several tasks on one queue: any schedule of whole-method critical sections ---------- *)
Lemma pqstep_conserves l o :
  heap_ok l ->
  Permutation (l ++ added_by o) (fst (pqstep l o) ++ handed_by l o) /\
  StronglySorted (fun a b => (a <= b)%N) (handed_by l o) /\
  (forall x y, In x (handed_by l o) -> In y (fst (pqstep l o)) -> o <> PAdd y -> (x <= y)%N).
Proof.
  intros H. destruct o as [x| | |]; cbn [pqstep added_by handed_by fst].
  - destruct (heap_push_ok l x H) as [_ P]. rewrite app_nil_r. split; [|split; [constructor|intros ? ? []]].
    eapply Permutation_trans; [apply Permutation_app_comm|]. cbn. symmetry. exact P.
  - destruct (heap_pop l) as [[x l']|] eqn:E; cbn [fst].
    + destruct (heap_pop_ok l x l' H E) as (H' & P & Hmin). rewrite app_nil_r. split; [|split].
      * eapply Permutation_trans; [exact P|]. apply Permutation_cons_append.
      * repeat constructor.
      * intros a y [<-|[]] Hy _. apply Hmin. apply (Permutation_in _ (Permutation_sym P)). right. exact Hy.
    + rewrite !app_nil_r. split; [apply Permutation_refl|split; [constructor|intros ? ? []]].
  - destruct (pop_all_sorted (length l) l H (le_n _)) as [P S]. rewrite app_nil_r. cbn [app].
    split; [symmetry; exact P|split; [exact S|intros ? ? _ []]].
  - rewrite !app_nil_r. split; [apply Permutation_refl|split; [constructor|intros ? ? []]].
Qed.

Definition PQInv (I : list N) (st : pqconc) : Prop :=
  heap_ok (pq_items st) /\
  Permutation (I ++ pq_added st) (pq_items st ++ concat (pq_handed st)) /\
  Forall (StronglySorted (fun a b => (a <= b)%N)) (pq_handed st).

Lemma concat_snoc (hs : list (list N)) h : concat (hs ++ [h]) = concat hs ++ h.
Proof. rewrite concat_app. cbn [concat]. rewrite app_nil_r. reflexivity. Qed.

(* whatever the tasks, their operations and the schedule: the queue stays a heap, nothing is lost or
   duplicated (what was there or added = what is still queued + what was handed out), and every Next /
   NextAll handed its items out in ascending counter order *)
Lemma pq_conc_inv I : forall sched progs st, PQInv I st -> PQInv I (pq_conc st progs sched).
Proof.
  induction sched as [|t sched IH]; intros progs st Hi; cbn [pq_conc]; [exact Hi|].
  destruct (nth_error progs t) as [[|o rest]|]; try (apply IH; exact Hi).
  apply IH. destruct Hi as (H & P & S).
  destruct (pqstep_conserves (pq_items st) o H) as (Po & So & _).
  split; [|split]; cbn [pq_items pq_added pq_handed].
  - apply pqstep_heap. exact H.
  - apply (Permutation_count_occ N.eq_dec). intros x.
    pose proof (proj1 (Permutation_count_occ N.eq_dec _ _) P x) as C1.
    pose proof (proj1 (Permutation_count_occ N.eq_dec _ _) Po x) as C2.
    rewrite !count_occ_app in *.
    assert (Hc : count_occ N.eq_dec
                   (concat (match o with PNext | PNextAll => pq_handed st ++ [handed_by (pq_items st) o] | _ => pq_handed st end)) x =
                 count_occ N.eq_dec (concat (pq_handed st)) x + count_occ N.eq_dec (handed_by (pq_items st) o) x).
    { destruct o; cbn [handed_by count_occ]; rewrite ?concat_snoc, ?count_occ_app; lia. }
    rewrite Hc. lia.
  - destruct o; try exact S; apply Forall_app; split; try exact S; repeat constructor; exact So.
Qed.

Lemma pq_conc_from_empty progs sched :
  PQInv [] (pq_conc (mkPQ [] [] []) progs sched).
Proof.
  apply pq_conc_inv. split; [apply heap_ok_nil|split; [apply Permutation_refl|constructor]].
Qed.
