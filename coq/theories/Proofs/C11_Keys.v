(* C11 — proofs about the key-derivation state machine. *)
From Coq Require Import List NArith ZArith Bool Lia ZifyN ZifyNat ZifyBool.
From Wesh Require Import Model.C11_Keys.
Import ListNotations.
Open Scope N_scope.

(* ---------- agreement ---------- *)

Lemma agree_symmetric a b : agree (Fresh a) b = agree (Fresh b) a.
Proof. cbn. destruct (a <=? b) eqn:E1, (b <=? a) eqn:E2; try reflexivity; f_equal; lia. Qed.

Lemma agree_injective a b a' b' :
  agree (Fresh a) b = agree (Fresh a') b' -> (a = a' /\ b = b') \/ (a = b' /\ b = a').
Proof. cbn. destruct (a <=? b) eqn:E1, (a' <=? b') eqn:E2; intros H; injection H; intros; lia. Qed.

Lemma name_eqb_eq a b : name_eqb a b = true <-> a = b.
Proof.
  destruct a, b; cbn; try (split; intros; (discriminate || congruence || reflexivity));
    rewrite N.eqb_eq; (split; intros H; [subst; reflexivity|injection H; auto]).
Qed.
Lemma name_eqb_refl a : name_eqb a a = true. Proof. apply name_eqb_eq. reflexivity. Qed.

(* ---------- invariants of one store ---------- *)

(* cached derived keys are what the derivation function gives for the store's CURRENT account /
   proof key; generated keys are below the random source's counter *)
Definition Consistent (st : kstore) : Prop :=
  (forall b k, lookup (NContact b) (ks st) = Some k -> exists a, lookup NAccount (ks st) = Some a /\ k = agree a b) /\
  (forall g k, lookup (NMember g) (ks st) = Some k -> exists p, lookup NProof (ks st) = Some p /\ k = agree p g).

Lemma Consistent_empty n : Consistent {| ks := []; next := n |}.
Proof. split; intros; discriminate. Qed.

Lemma lookup_cons n k l m : lookup m ((n, k) :: l) = if name_eqb n m then Some k else lookup m l.
Proof. reflexivity. Qed.

Lemma gen_consistent st n :
  Consistent st -> (forall b, n <> NContact b) -> (forall g, n <> NMember g) ->
  Consistent (fst (get_or_generate st n)) /\
  lookup n (ks (fst (get_or_generate st n))) = Some (snd (get_or_generate st n)) /\
  (forall m, m <> n -> lookup m (ks (fst (get_or_generate st n))) = lookup m (ks st)) /\
  (forall k, lookup n (ks st) = Some k -> fst (get_or_generate st n) = st /\ snd (get_or_generate st n) = k).
Proof.
  intros (C1 & C2) Hc Hm. unfold get_or_generate. destruct (lookup n (ks st)) as [k|] eqn:E; cbn [fst snd].
  - split; [split; assumption|]. split; [exact E|]. split; [auto|]. intros k' H. injection H as <-. auto.
  - assert (Hoth : forall m, m <> n -> lookup m ((n, Fresh (next st)) :: ks st) = lookup m (ks st)).
    { intros m Hne. rewrite lookup_cons. destruct (name_eqb n m) eqn:E'; [apply name_eqb_eq in E'; congruence|reflexivity]. }
    split; [|split; [cbn [ks]; rewrite lookup_cons, name_eqb_refl; reflexivity|split; [exact Hoth|intros; discriminate]]].
    cbn [ks]. split.
    + intros b k H. cbn [ks] in *. rewrite Hoth in H by (intros X; apply (Hc b); auto). destruct (C1 b k H) as (a & Ha & ->).
      exists a. split; [|reflexivity]. destruct (name_eqb n NAccount) eqn:E'.
      * apply name_eqb_eq in E'. subst n. congruence.
      * rewrite lookup_cons, E'. exact Ha.
    + intros g k H. cbn [ks] in *. rewrite Hoth in H by (intros X; apply (Hm g); auto). destruct (C2 g k H) as (p & Hp & ->).
      exists p. split; [|reflexivity]. destruct (name_eqb n NProof) eqn:E'.
      * apply name_eqb_eq in E'. subst n. congruence.
      * rewrite lookup_cons, E'. exact Hp.
Qed.

(* cache_transparent for contact groups: the key returned for a contact is the agreement of the
   store's account key with that contact — cached or not *)
Theorem contact_group_is_function st b st' k :
  Consistent st -> kstep st (OGroupForContact b) = (st', RGroup k) ->
  Consistent st' /\ exists a, lookup NAccount (ks st') = Some a /\ k = agree a b.
Proof.
  intros HC H. cbn [kstep] in H.
  destruct (gen_consistent st NAccount HC ltac:(discriminate) ltac:(discriminate)) as (C1 & L1 & O1 & _).
  destruct (get_or_generate st NAccount) as [st1 a]. cbn [fst snd] in *.
  unfold get_or_agree in H. destruct (lookup (NContact b) (ks st1)) as [k0|] eqn:E.
  - injection H as <- <-. split; [exact C1|]. destruct C1 as (X & _). apply (X b k0 E).
  - injection H as <- <-. cbn [ks].
    split; [|exists a; split; [cbn [ks]; rewrite lookup_cons; cbn [name_eqb]; exact L1|reflexivity]].
    destruct C1 as (X & Y). split.
    + intros b' k' H. cbn [ks] in H; rewrite lookup_cons in H. cbn [name_eqb] in H. destruct (b =? b') eqn:Eb.
      * apply N.eqb_eq in Eb. subst b'. injection H as <-. exists a. split; [cbn [ks]; rewrite lookup_cons; cbn [name_eqb]; exact L1|reflexivity].
      * destruct (X b' k' H) as (a' & Ha' & ->). exists a'. split; [cbn [ks]; rewrite lookup_cons; cbn [name_eqb]; exact Ha'|reflexivity].
    + intros g k' H. cbn [ks] in H; rewrite lookup_cons in H. cbn [name_eqb] in H. destruct (Y g k' H) as (p & Hp & ->).
      exists p. split; [cbn [ks]; rewrite lookup_cons; cbn [name_eqb]; exact Hp|reflexivity].
Qed.

(* member_key_device_independent / cache_transparent for member keys: the member key of a
   multi-member group is the agreement of the store's proof key with the group key; the device
   key is a separate (generated) key *)
Theorem member_key_is_function st g st' m d :
  Consistent st -> kstep st (OMemberDevice GMulti g) = (st', RPair m d) ->
  Consistent st' /\ exists p, lookup NProof (ks st') = Some p /\ m = agree p g.
Proof.
  intros HC H. cbn [kstep] in H.
  destruct (gen_consistent st NProof HC ltac:(discriminate) ltac:(discriminate)) as (C1 & L1 & O1 & _).
  destruct (get_or_generate st NProof) as [st1 p]. cbn [fst snd] in *.
  unfold get_or_agree in H.
  assert (K : exists st2, Consistent st2 /\ lookup NProof (ks st2) = Some p /\
              (let '(s, mm) := match lookup (NMember g) (ks st1) with
                               | Some k => (st1, k)
                               | None => ({| ks := (NMember g, agree p g) :: ks st1; next := next st1 |}, agree p g)
                               end in s = st2 /\ mm = agree p g)).
  { destruct (lookup (NMember g) (ks st1)) as [k0|] eqn:E.
    - exists st1. split; [exact C1|]. split; [exact L1|]. split; [reflexivity|].
      destruct C1 as (_ & Y). destruct (Y g k0 E) as (p' & Hp' & ->). congruence.
    - eexists. split; [|split; [|split; reflexivity]].
      + destruct C1 as (X & Y). split; cbn [ks].
        * intros b k Hb. cbn [ks] in Hb; rewrite lookup_cons in Hb. cbn [name_eqb] in Hb. destruct (X b k Hb) as (a & Ha & ->).
          exists a. split; [cbn [ks]; rewrite lookup_cons; cbn [name_eqb]; exact Ha|reflexivity].
        * intros g' k Hg. cbn [ks] in Hg; rewrite lookup_cons in Hg. cbn [name_eqb] in Hg. destruct (g =? g') eqn:Eg.
          -- apply N.eqb_eq in Eg. subst g'. injection Hg as <-. exists p. split; [cbn [ks]; rewrite lookup_cons; cbn [name_eqb]; exact L1|reflexivity].
          -- destruct (Y g' k Hg) as (p' & Hp' & ->). exists p'. split; [cbn [ks]; rewrite lookup_cons; cbn [name_eqb]; exact Hp'|reflexivity].
      + cbn [ks]. rewrite lookup_cons. cbn [name_eqb]. exact L1. }
  destruct K as (st2 & C2 & L2 & K).
  destruct (match lookup (NMember g) (ks st1) with Some k => (st1, k) | None => _ end) as [s mm]. destruct K as (-> & ->).
  destruct (gen_consistent st2 (NMemberDevice g) C2 ltac:(discriminate) ltac:(discriminate)) as (C3 & _ & O3 & _).
  destruct (get_or_generate st2 (NMemberDevice g)) as [st3 dd]. cbn [fst snd] in *.
  injection H as <- <- <-. split; [exact C3|]. exists p. split; [rewrite O3 by discriminate; exact L2|reflexivity].
Qed.

(* import_guards *)
Theorem import_refused_when_account_exists st a p :
  lookup NAccount (ks st) <> None \/ lookup NProof (ks st) <> None ->
  kstep st (OImport (BKey a) (BKey p)) = (st, RRefused).
Proof.
  intros H. cbn [kstep]. destruct (key_eqb a p); [reflexivity|].
  destruct (lookup NAccount (ks st)), (lookup NProof (ks st)); try reflexivity. destruct H; congruence.
Qed.

Theorem import_refused_equal_keys st a : kstep st (OImport (BKey a) (BKey a)) = (st, RRefused).
Proof.
  cbn [kstep]. assert (E : key_eqb a a = true) by (destruct a; cbn; rewrite ?N.eqb_refl; reflexivity).
  rewrite E. reflexivity.
Qed.

Theorem import_refused_malformed st ba bp :
  (forall k, ba <> BKey k) \/ (forall k, bp <> BKey k) -> kstep st (OImport ba bp) = (st, RRefused).
Proof. intros [H|H]; cbn [kstep]; destruct ba, bp; try reflexivity; exfalso; eapply H; reflexivity. Qed.

(* an accepted import happens only on a store without account keys, hence (by Consistent)
   without any cached derived key: the cache can never be stale *)
Theorem import_keeps_consistent st a p st' :
  Consistent st -> kstep st (OImport (BKey a) (BKey p)) = (st', RDone) ->
  Consistent st' /\ lookup NAccount (ks st') = Some a /\ lookup NProof (ks st') = Some p.
Proof.
  intros (C1 & C2) H. cbn [kstep] in H. destruct (key_eqb a p); [discriminate|].
  destruct (lookup NAccount (ks st)) eqn:EA; [discriminate|]. destruct (lookup NProof (ks st)) eqn:EP; [discriminate|].
  injection H as <-. cbn [ks]. split; [|split; reflexivity]. split.
  - intros b k H. cbn [ks] in H; rewrite !lookup_cons in H. cbn [name_eqb] in H. destruct (C1 b k H) as (a' & Ha' & _). congruence.
  - intros g k H. cbn [ks] in H; rewrite !lookup_cons in H. cbn [name_eqb] in H. destruct (C2 g k H) as (p' & Hp' & _). congruence.
Qed.

(* export_import_identity: what a store exports, imported into a fresh store, gives the same
   account and proof keys, hence the same contact groups and member keys *)
Theorem export_import_identity st0 st0' a p n st1 :
  kstep st0 OExport = (st0', RPair a p) -> a <> p ->
  kstep {| ks := []; next := n |} (OImport (BKey a) (BKey p)) = (st1, RDone) /\
  lookup NAccount (ks st1) = Some a /\ lookup NProof (ks st1) = Some p ->
  forall b g,
    (forall s k, kstep st1 (OGroupForContact b) = (s, RGroup k) -> k = agree a b) /\
    (forall s m d, kstep st1 (OMemberDevice GMulti g) = (s, RPair m d) -> m = agree p g).
Proof.
  intros _ _ (Himp & LA & LP) b g.
  assert (C : Consistent st1).
  { destruct (import_keeps_consistent {| ks := []; next := n |} a p st1 (Consistent_empty n) Himp) as (C & _). exact C. }
  split.
  - intros s k H. destruct (contact_group_is_function st1 b s k C H) as (_ & a' & La' & ->).
    cbn [kstep] in H. destruct (gen_consistent st1 NAccount C ltac:(discriminate) ltac:(discriminate)) as (_ & _ & _ & Same).
    destruct (Same a LA) as (E1 & E2). destruct (get_or_generate st1 NAccount) as [s1 a1]. cbn [fst snd] in *. subst s1 a1.
    unfold get_or_agree in H. destruct (lookup (NContact b) (ks st1)) eqn:E.
    + injection H as <- _. congruence.
    + injection H as <- _. cbn [ks] in La'. rewrite lookup_cons in La'. cbn [name_eqb] in La'. congruence.
  - intros s m d H. destruct (member_key_is_function st1 g s m d C H) as (_ & p' & Lp' & ->).
    (* the proof key of st1 is p and no step of the derivation changes it *)
    cbn [kstep] in H. destruct (gen_consistent st1 NProof C ltac:(discriminate) ltac:(discriminate)) as (_ & _ & _ & Same).
    destruct (Same p LP) as (E1 & E2). destruct (get_or_generate st1 NProof) as [s1 p1]. cbn [fst snd] in *. subst s1 p1.
    unfold get_or_agree in H.
    destruct (lookup (NMember g) (ks st1)) eqn:E.
    + destruct (get_or_generate st1 (NMemberDevice g)) as [s3 d3] eqn:G. injection H as <- _ _.
      pose proof (gen_consistent st1 (NMemberDevice g) C ltac:(discriminate) ltac:(discriminate)) as (_ & _ & O3 & _).
      rewrite G in O3. cbn [fst] in O3. rewrite O3 in Lp' by discriminate. congruence.
    + destruct (get_or_generate {| ks := (NMember g, agree p g) :: ks st1; next := next st1 |} (NMemberDevice g)) as [s3 d3] eqn:G.
      injection H as <- _ _. unfold get_or_generate in G. cbn [ks] in G.
      destruct (lookup (NMemberDevice g) ((NMember g, agree p g) :: ks st1)); injection G as <- _; cbn [ks] in Lp';
        rewrite ?lookup_cons in Lp'; cbn [name_eqb] in Lp'; congruence.
Qed.

(* device_keys_distinct: a generated key is new — it differs from every key the random source
   produced before *)
Definition Below (st : kstore) : Prop := forall n k, lookup n (ks st) = Some k -> match k with Fresh i => i < next st | Agree _ _ => True end.

Theorem generated_key_is_new st n :
  Below st -> lookup n (ks st) = None ->
  snd (get_or_generate st n) = Fresh (next st) /\
  (forall m k, lookup m (ks st) = Some k -> k <> Fresh (next st)) /\
  Below (fst (get_or_generate st n)).
Proof.
  intros B H. unfold get_or_generate. rewrite H. cbn [fst snd]. split; [reflexivity|]. split.
  - intros m k Hk E. subst k. specialize (B m _ Hk). cbn in B. lia.
  - intros m k Hk. cbn [ks next] in *. rewrite lookup_cons in Hk. destruct (name_eqb n m).
    + injection Hk as <-. lia.
    + specialize (B m k Hk). destruct k; [lia|exact I].
Qed.
