(* C10 — at every crash point (prefix of the mutation list of any operation) nothing that
   could be opened becomes un-openable, stored keys stay the sender's keys, chain counters
   never decrease or disappear. *)
From Coq Require Import List NArith ZArith Bool Lia ZifyN ZifyNat ZifyBool.
From Wesh Require Import Model.Store Model.C02_Ratchet Model.C10_Crash Proofs.C02_Ratchet.
Import ListNotations.
Open Scope N_scope.

Section Crash.
Variable cidf : N -> N -> N.
Hypothesis cidf_inj : forall d k d' k', cidf d k = cidf d' k' -> d = d' /\ k = k'.

(* every stored key is the sender's key of that counter; every stored chain value is the
   chain at its counter (chain determinism) *)
Definition Good (s : store) : Prop :=
  (forall d k mk, get_pre s grp d k = Some mk -> mk = (d, k)) /\
  (forall d k mk, get_cid s (cidf d k) = Some mk -> mk = (d, k)) /\
  (forall d c ck, get_chain s grp d = Some (c, ck) -> ck = (d, c)).

(* message (d,k) can be opened: its key is stored under its CID or as a precomputed key *)
Definition holds (s : store) (d k : N) : Prop :=
  get_cid s (cidf d k) = Some (d, k) \/ get_pre s grp d k = Some (d, k).

Definition chain_ge (s s' : store) : Prop :=
  forall d c ck, get_chain s grp d = Some (c, ck) -> exists c' ck', get_chain s' grp d = Some (c', ck') /\ c <= c'.

(* what one mutation must satisfy, in the state it is applied to *)
Definition mut_ok (s : store) (m : mut) : Prop :=
  match m with
  | MPut (KCid c) (VKey mk) => exists d k, c = cidf d k /\ mk = (d, k)
  | MDel (KPre g d k) => g = grp /\ get_cid s (cidf d k) = Some (d, k)
  | MBatch kvs => Forall (fun kv => exists d k, kv = (KPre grp d k, VKey (d, k))) kvs
  | MPut (KChain g d) (VChain c ck) =>
    g = grp /\ ck = (d, c) /\ (forall c0 ck0, get_chain s grp d = Some (c0, ck0) -> c0 <= c)
  | _ => False
  end.

Lemma get_pre_put_kpre s d k v d' k' :
  get_pre (put (KPre grp d k) v s) grp d' k' =
  if (d =? d') && (k =? k') then match v with VKey mk => Some mk | _ => None end else get_pre s grp d' k'.
Proof.
  unfold get_pre, put. cbn [dkey_eqb]. unfold grp. cbn [N.eqb andb].
  destruct ((d =? d') && (k =? k')); reflexivity.
Qed.

Lemma batch_pre_lookup kvs : forall s d k,
  Forall (fun kv => exists d k, kv = (KPre grp d k, VKey (d, k))) kvs ->
  get_pre (fold_left (fun s kv => put (fst kv) (snd kv) s) kvs s) grp d k = get_pre s grp d k \/
  get_pre (fold_left (fun s kv => put (fst kv) (snd kv) s) kvs s) grp d k = Some (d, k).
Proof.
  induction kvs as [|kv kvs IH]; intros s d k H; cbn [fold_left]; [left; reflexivity|].
  inversion H as [|? ? (d0 & k0 & ->) H']; subst. cbn [fst snd].
  destruct (IH (put (KPre grp d0 k0) (VKey (d0, k0)) s) d k H') as [E|E]; [|right; exact E].
  rewrite E, get_pre_put_kpre.
  destruct ((d0 =? d) && (k0 =? k)) eqn:Eq; [|left; reflexivity].
  apply andb_true_iff in Eq. destruct Eq as [E1 E2]. apply N.eqb_eq in E1, E2. subst. right. reflexivity.
Qed.

Lemma batch_other kvs : forall s kk,
  Forall (fun kv => exists d k, kv = (KPre grp d k, VKey (d, k))) kvs ->
  (forall d k, kk <> KPre grp d k) ->
  fold_left (fun s kv => put (fst kv) (snd kv) s) kvs s kk = s kk.
Proof.
  induction kvs as [|kv kvs IH]; intros s kk H Hk; cbn [fold_left]; [reflexivity|].
  inversion H as [|? ? (d0 & k0 & ->) H']; subst. cbn [fst snd].
  rewrite IH by assumption. apply put_other. intros E. apply (Hk d0 k0). auto.
Qed.

(* one acceptable mutation keeps Good, keeps every openable message openable, keeps chains *)
Lemma mut_step s m :
  Good s -> mut_ok s m ->
  Good (apply_mut s m) /\ (forall d k, holds s d k -> holds (apply_mut s m) d k) /\ chain_ge s (apply_mut s m).
Proof.
  intros (G1 & G2 & G3) Hok. destruct m as [key v|key|kvs]; cbn [apply_mut].
  - destruct key as [g d|g d c|c|g d c|g d]; cbn [mut_ok] in Hok; try contradiction.
    + (* chain put *)
      destruct v as [c ck| | |]; try contradiction. destruct Hok as (-> & -> & Hmono).
      assert (Hpre : forall d' k', get_pre (put (KChain grp d) (VChain c (d, c)) s) grp d' k' = get_pre s grp d' k')
        by (intros; unfold get_pre; rewrite put_other by discriminate; reflexivity).
      assert (Hcid : forall c', get_cid (put (KChain grp d) (VChain c (d, c)) s) c' = get_cid s c')
        by (intros; unfold get_cid; rewrite put_other by discriminate; reflexivity).
      split; [|split].
      * split; [intros d' k' mk; rewrite Hpre; apply G1|]. split; [intros d' k' mk; rewrite Hcid; apply G2|].
        intros d' c' ck'. unfold get_chain. destruct (N.eq_dec d' d) as [->|Hne].
        -- rewrite put_same. intros E. injection E as <- <-. reflexivity.
        -- rewrite put_other by congruence. apply G3.
      * intros d' k' [H|H]; [left; rewrite Hcid; exact H|right; rewrite Hpre; exact H].
      * intros d' c' ck' H. unfold get_chain. destruct (N.eq_dec d' d) as [->|Hne].
        -- rewrite put_same. exists c, (d, c). split; [reflexivity|]. apply (Hmono c' ck' H).
        -- rewrite put_other by congruence. exists c', ck'. split; [exact H|lia].
    + (* cid put *)
      destruct v as [|mk| |]; try contradiction. destruct Hok as (d & k & -> & ->).
      assert (Hpre : forall d' k', get_pre (put (KCid (cidf d k)) (VKey (d, k)) s) grp d' k' = get_pre s grp d' k')
        by (intros; unfold get_pre; rewrite put_other by discriminate; reflexivity).
      assert (Hch : forall d', get_chain (put (KCid (cidf d k)) (VKey (d, k)) s) grp d' = get_chain s grp d')
        by (intros; unfold get_chain; rewrite put_other by discriminate; reflexivity).
      assert (Hcid : forall d' k', get_cid (put (KCid (cidf d k)) (VKey (d, k)) s) (cidf d' k') =
                                   if (d =? d') && (k =? k') then Some (d, k) else get_cid s (cidf d' k')).
      { intros d' k'. unfold get_cid. destruct ((d =? d') && (k =? k')) eqn:E.
        - apply andb_true_iff in E. destruct E as [E1 E2]. apply N.eqb_eq in E1, E2. subst. rewrite put_same. reflexivity.
        - rewrite put_other; [reflexivity|]. intros Eq. injection Eq as Eq. apply cidf_inj in Eq. destruct Eq; subst.
          rewrite !N.eqb_refl in E. discriminate. }
      split; [|split].
      * split; [intros d' k' mk; rewrite Hpre; apply G1|]. split; [|intros d' c' ck'; rewrite Hch; apply G3].
        intros d' k' mk. rewrite Hcid. destruct ((d =? d') && (k =? k')) eqn:E; [|apply G2].
        apply andb_true_iff in E. destruct E as [E1 E2]. apply N.eqb_eq in E1, E2. subst. congruence.
      * intros d' k' [H|H]; [|right; rewrite Hpre; exact H]. left. rewrite Hcid.
        destruct ((d =? d') && (k =? k')) eqn:E; [|exact H].
        apply andb_true_iff in E. destruct E as [E1 E2]. apply N.eqb_eq in E1, E2. subst. reflexivity.
      * intros d' c' ck' H. exists c', ck'. rewrite Hch. split; [exact H|lia].
  - (* delete of a precomputed key whose message is already saved under its CID *)
    destruct key as [g d|g d c|c|g d c|g d]; cbn [mut_ok] in Hok; try contradiction.
    destruct Hok as (-> & Hsaved).
    assert (Hcid : forall c', get_cid (del (KPre grp d c) s) c' = get_cid s c')
      by (intros; unfold get_cid; rewrite del_other by discriminate; reflexivity).
    assert (Hch : forall d', get_chain (del (KPre grp d c) s) grp d' = get_chain s grp d')
      by (intros; unfold get_chain; rewrite del_other by discriminate; reflexivity).
    split; [|split].
    + split; [|split; [intros d' k' mk; rewrite Hcid; apply G2|intros d' c' ck'; rewrite Hch; apply G3]].
      intros d' k' mk. unfold get_pre. destruct (dkey_eqb (KPre grp d c) (KPre grp d' k')) eqn:E.
      * apply dkey_eqb_eq in E. rewrite <- E, del_same. discriminate.
      * rewrite del_other; [apply G1|]. intros Eq. rewrite Eq, dkey_eqb_refl in E. discriminate.
    + intros d' k' [H|H]; [left; rewrite Hcid; exact H|].
      destruct (dkey_eqb (KPre grp d c) (KPre grp d' k')) eqn:E.
      * apply dkey_eqb_eq in E. injection E as <- <-. left. rewrite Hcid. exact Hsaved.
      * right. unfold get_pre. rewrite del_other; [exact H|]. intros Eq. rewrite Eq, dkey_eqb_refl in E. discriminate.
    + intros d' c' ck' H. exists c', ck'. rewrite Hch. split; [exact H|lia].
  - (* atomic batch of precomputed keys *)
    cbn [mut_ok] in Hok.
    assert (Hcid : forall c', get_cid (fold_left (fun s kv => put (fst kv) (snd kv) s) kvs s) c' = get_cid s c')
      by (intros; unfold get_cid; rewrite batch_other by (assumption || discriminate); reflexivity).
    assert (Hch : forall d', get_chain (fold_left (fun s kv => put (fst kv) (snd kv) s) kvs s) grp d' = get_chain s grp d')
      by (intros; unfold get_chain; rewrite batch_other by (assumption || discriminate); reflexivity).
    split; [|split].
    + split; [|split; [intros d' k' mk; rewrite Hcid; apply G2|intros d' c' ck'; rewrite Hch; apply G3]].
      intros d' k' mk H. destruct (batch_pre_lookup kvs s d' k' Hok) as [E|E]; rewrite E in H; [apply (G1 _ _ _ H)|congruence].
    + intros d' k' [H|H]; [left; rewrite Hcid; exact H|right].
      destruct (batch_pre_lookup kvs s d' k' Hok) as [E|E]; rewrite E; [exact H|reflexivity].
    + intros d' c' ck' H. exists c', ck'. rewrite Hch. split; [exact H|lia].
Qed.

(* a mutation list each of whose elements is acceptable in the state it meets *)
Fixpoint muts_ok (s : store) (l : list mut) : Prop :=
  match l with [] => True | m :: l' => mut_ok s m /\ muts_ok (apply_mut s m) l' end.

Lemma chain_ge_refl s : chain_ge s s.
Proof. intros d c ck H. exists c, ck. split; [exact H|lia]. Qed.
Lemma chain_ge_trans a b c : chain_ge a b -> chain_ge b c -> chain_ge a c.
Proof.
  intros H1 H2 d x ck H. destruct (H1 d x ck H) as (x' & ck' & E & L).
  destruct (H2 d x' ck' E) as (x'' & ck'' & E' & L'). exists x'', ck''. split; [exact E'|lia].
Qed.

Lemma prefix_states l : forall s p,
  Good s -> muts_ok s l -> In p (prefixes l) ->
  Good (apply_muts s p) /\ (forall d k, holds s d k -> holds (apply_muts s p) d k) /\ chain_ge s (apply_muts s p).
Proof.
  induction l as [|m l IH]; intros s p HG Hok Hin.
  - destruct Hin as [<-|[]]. cbn. split; [exact HG|]. split; [auto|apply chain_ge_refl].
  - cbn [prefixes] in Hin. destruct Hin as [<-|Hin].
    + cbn. split; [exact HG|]. split; [auto|apply chain_ge_refl].
    + apply in_map_iff in Hin. destruct Hin as (p' & <- & Hin'). destruct Hok as (Hm & Hrest).
      destruct (mut_step s m HG Hm) as (G' & H' & C').
      destruct (IH (apply_mut s m) p' G' Hrest Hin') as (G'' & H'' & C'').
      unfold apply_muts in *. cbn [fold_left]. split; [exact G''|]. split; [auto|eapply chain_ge_trans; eassumption].
Qed.

End Crash.

Section Ops.
Variable W : nat.
Variable cidf : N -> N -> N.
Hypothesis cidf_inj : forall d k d' k', cidf d k = cidf d' k' -> d = d' /\ k = k'.

Lemma gen_keys_form g d : forall w c,
  g = grp -> Forall (fun kv => exists d k, kv = (KPre grp d k, VKey (d, k))) (gen_keys g d w c).
Proof.
  induction w as [|w IH]; intros c ->; cbn [gen_keys]; constructor; [eexists _, _; reflexivity|apply IH; reflexivity].
Qed.

Lemma msgkey_eqb_refl k : msgkey_eqb k k = true.
Proof. unfold msgkey_eqb. rewrite !N.eqb_refl. reflexivity. Qed.

Definition wf10 (o : rop) : Prop := match o with ROpen d k cid => cid = cidf d k | _ => True end.

(* the mutation list of every operation is acceptable, element by element *)
Lemma op_muts_ok s o : Good cidf s -> wf10 o -> muts_ok cidf s (op_muts W s o).
Proof.
  intros HG Hwf. pose proof HG as (G1 & G2 & G3). destruct o as [d c|d k cid|d|d]; cbn [op_muts].
  - (* register *)
    unfold register_muts. destruct (get_chain s grp d) eqn:Ech; [exact I|].
    unfold precompute_keys. rewrite Ech, (precompute_loop_none cidf cidf_inj). cbn [rev app].
    assert (Hform := gen_keys_form grp d W c eq_refl).
    destruct (gen_keys grp d W c) as [|kv kvs] eqn:Eg; cbn [app muts_ok mut_ok].
    + split; [|exact I]. split; [reflexivity|]. split; [reflexivity|]. intros c0 ck0 H. congruence.
    + split; [exact Hform|]. split; [|exact I]. split; [reflexivity|]. split; [reflexivity|].
      intros c0 ck0 H. exfalso. unfold get_chain in H, Ech. cbn [apply_mut] in H.
      rewrite (batch_other (kv :: kvs)) in H by (assumption || discriminate). congruence.
  - (* open *)
    cbn in Hwf. subst cid. unfold open_step, honest_env. cbn [e_group e_dev e_ctr e_key e_payload e_signer].
    destruct (get_cid s (cidf d k)) as [mk|] eqn:Ecid; [cbn; exact I|].
    destruct (get_pre s grp d k) as [mk|] eqn:Epre; [|cbn; exact I].
    pose proof (G1 d k mk Epre) as ->. rewrite msgkey_eqb_refl, N.eqb_refl. cbn [negb].
    set (m1 := [MPut (KCid (cidf d k)) (VKey (d, k)); MDel (KPre grp d k)]).
    assert (Hm1 : forall rest, muts_ok cidf (apply_muts s m1) rest -> muts_ok cidf s (m1 ++ rest)).
    { intros rest Hrest. unfold m1. cbn [app muts_ok mut_ok]. split; [exists d, k; auto|].
      split; [split; [reflexivity|]; unfold get_cid; cbn [apply_mut]; rewrite put_same; reflexivity|exact Hrest]. }
    assert (Hch1 : get_chain (apply_muts s m1) grp d = get_chain s grp d).
    { unfold get_chain, m1, apply_muts. cbn [fold_left apply_mut]. rewrite del_other, put_other by discriminate. reflexivity. }
    unfold precompute_next. fold m1. rewrite Hch1.
    destruct (get_chain s grp d) as [[cs ck]|] eqn:Ech; cbn [snd].
    + pose proof (G3 d cs ck Ech) as ->. unfold derive. cbn [fst snd].
      assert (Hb : mut_ok cidf (apply_muts s m1) (MBatch [(KPre grp d (cs + 1), VKey (d, cs + 1))])).
      { cbn. constructor; [eexists _, _; reflexivity|constructor]. }
      destruct (match Some 3 with Some o => o =? d | None => false end).
      * cbn [snd]. rewrite <- (app_nil_r (m1 ++ _)), <- app_assoc. apply Hm1. cbn [app muts_ok]. auto.
      * unfold update_current_muts.
        assert (Hch2 : get_chain (apply_mut (apply_muts s m1) (MBatch [(KPre grp d (cs + 1), VKey (d, cs + 1))])) grp d = Some (cs, (d, cs))).
        { unfold get_chain. cbn [apply_mut fold_left fst snd]. rewrite put_other by discriminate. fold (get_chain (apply_muts s m1) grp d).
          rewrite Hch1. first [reflexivity|exact Ech]. }
        rewrite Hch2. cbn [fst snd]. replace (cs + 1 <? cs) with false by lia. cbn [snd].
        apply Hm1. cbn [app muts_ok]. split; [exact Hb|]. split; [|exact I]. cbn [mut_ok].
        split; [reflexivity|]. split; [reflexivity|]. intros c0 ck0 H. rewrite Hch2 in H. injection H as <- _. lia.
    + cbn [snd]. rewrite <- (app_nil_r m1). apply Hm1. exact I.
  - exact I.
  - (* own seal *)
    unfold own_chain_muts, seal_step.
    destruct (get_chain s grp d) as [[c ck]|] eqn:Ech.
    + cbn [app apply_muts fold_left]. rewrite Ech. pose proof (G3 d c ck Ech) as ->.
      unfold derive, precompute_next. rewrite Ech. unfold derive. cbn [fst snd].
      unfold update_current_muts.
      assert (Hch2 : get_chain (apply_mut s (MBatch [(KPre grp d (c + 1), VKey (d, c + 1))])) grp d = Some (c, (d, c))).
      { unfold get_chain. cbn [apply_mut fold_left fst snd]. rewrite put_other by discriminate. exact Ech. }
      rewrite Hch2. cbn [fst snd]. replace (c + 1 <? c) with false by lia. cbn [snd muts_ok mut_ok].
      split; [constructor; [eexists _, _; reflexivity|constructor]|]. split; [|exact I].
      split; [reflexivity|]. split; [reflexivity|]. intros c0 ck0 H. rewrite Hch2 in H. injection H as <- _. lia.
    + cbn [app muts_ok mut_ok]. split; [split; [reflexivity|split; [reflexivity|intros; congruence]]|].
      set (s1 := apply_mut s (MPut (KChain grp d) (VChain 0 (d, 0)))).
      assert (E1 : get_chain s1 grp d = Some (0, (d, 0))) by (unfold get_chain, s1; cbn [apply_mut]; rewrite put_same; reflexivity).
      unfold apply_muts. cbn [fold_left]. fold s1. rewrite E1.
      unfold derive, precompute_next. rewrite E1. unfold derive. cbn [fst snd].
      unfold update_current_muts.
      assert (Hch2 : get_chain (apply_mut s1 (MBatch [(KPre grp d (0 + 1), VKey (d, 0 + 1))])) grp d = Some (0, (d, 0))).
      { unfold get_chain. cbn [apply_mut fold_left fst snd]. rewrite put_other by discriminate. exact E1. }
      rewrite Hch2. cbn [fst snd]. replace (0 + 1 <? 0) with false by lia. cbn [snd muts_ok mut_ok].
      split; [constructor; [eexists _, _; reflexivity|constructor]|]. split; [|exact I].
      split; [reflexivity|]. split; [reflexivity|]. intros c0 ck0 H. rewrite Hch2 in H. injection H as <- _. lia.
Qed.

(* crash_safe: at EVERY crash point of EVERY operation (started in a good state) the store is
   good, every message that could be opened still can, no chain counter went back or vanished *)
Theorem crash_safe s o s' :
  Good cidf s -> wf10 o -> In s' (crash_states W s o) ->
  Good cidf s' /\ (forall d k, holds cidf s d k -> holds cidf s' d k) /\ chain_ge s s'.
Proof.
  intros HG Hwf Hin. unfold crash_states in Hin. apply in_map_iff in Hin. destruct Hin as (p & <- & Hp).
  apply (prefix_states cidf cidf_inj (op_muts W s o)); [exact HG|apply op_muts_ok; assumption|exact Hp].
Qed.

Lemma full_is_prefix {A} (l : list A) : In l (prefixes l).
Proof. induction l as [|x l IH]; cbn; [left; reflexivity|right; apply in_map; exact IH]. Qed.

(* executions with crashes: each step runs an operation to completion or stops it at any
   prefix of its mutations (the restart itself does not change the datastore) *)
Inductive exec : store -> store -> Prop :=
| exec_refl s : exec s s
| exec_step s o p s'' : wf10 o -> In p (prefixes (op_muts W s o)) -> exec (apply_muts s p) s'' -> exec s s''.

Theorem exec_safe s s' :
  exec s s' -> Good cidf s ->
  Good cidf s' /\ (forall d k, holds cidf s d k -> holds cidf s' d k) /\ chain_ge s s'.
Proof.
  intros H. induction H as [s|s o p s'' Hwf Hp _ IH]; intros HG.
  - split; [exact HG|]. split; [auto|apply (chain_ge_refl cidf cidf_inj)].
  - destruct (prefix_states cidf cidf_inj (op_muts W s o) s p HG (op_muts_ok s o HG Hwf) Hp) as (G' & H' & C').
    destruct (IH G') as (G'' & H'' & C''). split; [exact G''|]. split; [auto|eapply (chain_ge_trans cidf cidf_inj); eassumption].
Qed.

Lemma Good_empty : Good cidf empty_store.
Proof. repeat split; intros; discriminate. Qed.

(* recover: in a good state a message that holds opens — at once, or (when the chain key is
   missing because a registration was interrupted) on the retry, its key having been saved
   under its CID by the first attempt *)
Theorem holds_opens s d k own :
  Good cidf s -> holds cidf s d k ->
  let e := honest_env grp d d k (cidf d k) in
  fst (open_step s e (cidf d k) own) = ROk (cidf d k) \/
  (fst (open_step s e (cidf d k) own) = RFail /\
   fst (open_step (apply_muts s (snd (open_step s e (cidf d k) own))) e (cidf d k) own) = ROk (cidf d k)).
Proof.
  intros (G1 & G2 & G3) Hh e. unfold e, open_step, honest_env. cbn [e_group e_dev e_ctr e_key e_payload e_signer].
  destruct (get_cid s (cidf d k)) as [mk|] eqn:Ecid.
  - pose proof (G2 d k mk Ecid) as ->. rewrite msgkey_eqb_refl. left. reflexivity.
  - destruct Hh as [Hh|Hh]; [congruence|]. rewrite Hh, msgkey_eqb_refl, N.eqb_refl. cbn [negb].
    set (m1 := [MPut (KCid (cidf d k)) (VKey (d, k)); MDel (KPre grp d k)]).
    assert (Hch1 : get_chain (apply_muts s m1) grp d = get_chain s grp d).
    { unfold get_chain, m1, apply_muts. cbn [fold_left apply_mut]. rewrite del_other, put_other by discriminate. reflexivity. }
    unfold precompute_next. fold m1. rewrite Hch1.
    destruct (get_chain s grp d) as [[cs ck]|] eqn:Ech.
    + unfold derive. cbn [fst snd].
      destruct (match own with Some o => o =? d | None => false end); [left; reflexivity|].
      unfold update_current_muts.
      assert (Hch2 : get_chain (apply_mut (apply_muts s m1) (MBatch [(KPre grp d (cs + 1), VKey (fst ck, snd ck + 1))])) grp d = Some (cs, ck)).
      { unfold get_chain. cbn [apply_mut fold_left fst snd]. rewrite put_other by discriminate. fold (get_chain (apply_muts s m1) grp d).
        rewrite Hch1. first [reflexivity|exact Ech]. }
      rewrite Hch2. cbn [fst snd]. destruct (cs + 1 <? cs); left; reflexivity.
    + right. cbn [fst snd]. split; [reflexivity|].
      assert (Ec : get_cid (apply_muts s m1) (cidf d k) = Some (d, k)).
      { unfold get_cid, m1, apply_muts. cbn [fold_left apply_mut]. rewrite del_other by discriminate. rewrite put_same. reflexivity. }
      fold m1. rewrite Ec, msgkey_eqb_refl. reflexivity.
Qed.

(* an envelope handed to the caller has the counter stored by its own seal; every later state,
   crashed or not, stores a counter at least as large, so a later seal uses a larger one *)
Theorem seal_counter_persisted s d payload e :
  Good cidf s -> fst (seal_step s grp d payload) = Some e ->
  exists ck, get_chain (apply_muts s (snd (seal_step s grp d payload))) grp d = Some (e_ctr e, ck).
Proof.
  intros (G1 & G2 & G3). unfold seal_step. destruct (get_chain s grp d) as [[c ck]|] eqn:Ech; [|discriminate].
  unfold derive, precompute_next. rewrite Ech. unfold derive. cbn [fst snd]. unfold update_current_muts.
  assert (Hch2 : get_chain (apply_mut s (MBatch [(KPre grp d (c + 1), VKey (fst ck, snd ck + 1))])) grp d = Some (c, ck)).
  { unfold get_chain. cbn [apply_mut fold_left fst snd]. rewrite put_other by discriminate. exact Ech. }
  rewrite Hch2. cbn [fst snd]. replace (c + 1 <? c) with false by lia. cbn [fst snd].
  intros H. injection H as <-. cbn [e_ctr]. eexists. unfold apply_muts, get_chain. cbn [fold_left apply_mut fst snd].
  rewrite put_same. reflexivity.
Qed.

Theorem no_counter_reuse_after_restart s s' d c ck payload e :
  get_chain s grp d = Some (c, ck) -> chain_ge s s' ->
  fst (seal_step s' grp d payload) = Some e -> c < e_ctr e.
Proof.
  intros Hc Hge. destruct (Hge d c ck Hc) as (c' & ck' & E & L).
  unfold seal_step. rewrite E. unfold derive, precompute_next. rewrite E. unfold derive. cbn [fst snd].
  match goal with |- fst (match ?x with _ => _ end) = _ -> _ => destruct x end; [|discriminate].
  cbn [fst]. intros H. injection H as <-. cbn [e_ctr]. lia.
Qed.

End Ops.

(* ---------- what is NOT crash safe: the advance of the ratchet ---------- *)
(* Window 1, sender 1 registered at counter 1.  A stop right after the first write of the open of
   message 2 (the key stored under the message identifier): after restart the message opens again
   by its identifier, nothing more is written, and message 3 — which opens in the run without the
   stop — never opens. *)
Lemma advance_lost_after_crash :
  let W := 1%nat in
  let s0 := apply_muts empty_store (op_muts W empty_store (RReg 1 1)) in
  let ms := op_muts W s0 (ROpen 1 2 100) in
  let crash := apply_muts s0 (firstn 1 ms) in
  let s1 := apply_muts crash (op_muts W crash (ROpen 1 2 100)) in
  length ms = 4%nat /\
  op_out W crash (ROpen 1 2 100) = OOk 100 /\ op_muts W crash (ROpen 1 2 100) = [] /\
  op_out W s1 (ROpen 1 3 101) = OFail /\
  op_out W (apply_muts s0 ms) (ROpen 1 3 101) = OOk 101.
Proof. vm_compute. repeat split. Qed.
