(* Facts about the generated description of the message pipeline (C08), re-proved against the
   current sources on every run: the shape the LTS of Model/C08_Pipeline.v follows.
   - getOrCreateDeviceCache (program CLock..CUnlock of the consumer): takes muDeviceCaches for its
     whole body, asks the secret store only when it creates the cache, parks the message (Add) inside
     the critical section;
   - ProcessMessageQueueForDevicePK (program RLock, RFlush, RUnlock of the registrar): under the same
     mutex, refreshes the flag and flushes the WHOLE parked queue, with no return before the unlock;
   - processMessageLoop: wait, get-or-create, (parked: emit) | process, (failure: park again, emit) |
     flush the device queue, emit;
   - the flag is read and written by these two functions only, i.e. under muDeviceCaches. *)
From Coq Require Import List String.
From Wesh Require Import Gen.Pipeline.
Import ListNotations.
Open Scope string_scope.

Lemma pipeline_shape :
  pipe_get_or_create = ["lock m.muDeviceCaches"; "defer unlock m.muDeviceCaches"; "call IsChainKeyKnownForDevice"; "call Add"] /\
  pipe_register = ["lock m.muDeviceCaches"; "call UnmarshalEd25519PublicKey"; "call IsChainKeyKnownForDevice";
                   "call processDeviceMessagesInQueue"; "unlock m.muDeviceCaches"] /\
  pipe_loop = ["call WaitForItem"; "call getOrCreateDeviceCache"; "call Emit"; "call processMessage"; "call Add"; "call Emit";
               "call processDeviceMessagesInQueue"; "call Emit"] /\
  chain_key_flag_writers = ["ProcessMessageQueueForDevicePK"; "getOrCreateDeviceCache"] /\
  chain_key_flag_users = ["ProcessMessageQueueForDevicePK"; "getOrCreateDeviceCache"] /\
  pipe_returns = (2, 0)%nat.
Proof. repeat split; reflexivity. Qed.

(* the conditions under which the loop makes its calls (what Model/C08_Window.v's [cstep] follows): a
   message that does not open is parked again (Add under the error test, block ends in continue: nothing
   else happens to it), and the flush of the device queue after a success is UNCONDITIONAL - it does not
   depend on the state of the FIFO, on how often a message has been tried, or on anything else *)
Lemma pipeline_loop_guards :
  pipe_loop_guards =
    ["call WaitForItem"; "if !ok ends return"; "call getOrCreateDeviceCache"; "if device==nil ends continue";
     "if !hasKnownChainKey ends continue"; "call Emit @ else(device==nil) @ !hasKnownChainKey"; "call processMessage";
     "if err!=nil ends continue"; "call Add @ err!=nil"; "call Emit @ err!=nil"; "call processDeviceMessagesInQueue";
     "call Emit"; "if err!=nil ends next"].
Proof. reflexivity. Qed.
