(* Facts about the generated description of OutOfStoreMessageOpen (C14): the flag it returns starts
   as "newly decrypted", is cleared exactly when the key stored under the message's identifier is
   found (written by the log path when it opens the message), and only a miss of that look-up falls
   back to the precomputed key of the counter. *)
From Coq Require Import List String.
From Wesh Require Import Gen.OutOfStore.
Import ListNotations.
Open Scope string_scope.

Lemma flag_follows_the_cid_lookup :
  oos_flag_init = "decryptionContext{newlyDecrypted: true}" /\
  oos_first_lookup = "decryptionCtx.messageKey, err = s.getKeyForCID(ctx,c) ; err==nil" /\
  oos_on_hit = ["decryptionCtx.newlyDecrypted = false"] /\
  oos_on_miss = ["decryptionCtx.messageKey, err = s.getPrecomputedMessageKey(ctx,groupPublicKey,devicePublicKey,envelope.Counter)";
                 "if err!=nil"] /\
  oos_flag_returned = "decryptionCtx.newlyDecrypted".
Proof. repeat split; reflexivity. Qed.

Lemma oos_skeleton_ok :
  oos_skeleton = ["lock s.messageMutex"; "defer unlock s.messageMutex"; "call getKeyForCID";
                  "call getPrecomputedMessageKey"; "call openPayloadWithMessageKey"; "call preComputeNextKey"].
Proof. reflexivity. Qed.
