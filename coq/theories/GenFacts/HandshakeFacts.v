(* The responder/requester theorems of C06 are proved for a handshake that validates the peer's
   ephemeral key; this is what the current source does. *)
From Wesh Require Import Gen.Handshake.
Lemma handshake_validates : handshake_validates_peer_ephemeral = true.
Proof. reflexivity. Qed.
