(* The responder/requester theorems of C06 are proved for a handshake that validates the peer's
   ephemeral key; this is what the current source does. *)
From Wesh Require Import Gen.Handshake.
Lemma handshake_validates : handshake_validates_peer_ephemeral = true.
Proof. reflexivity. Qed.

(* contact_request_manager.go: SendContactRequest performs the requester handshake FIRST and returns on
   its failure, then writes the own contact card, then marks the request as sent (Model: [outgoing]);
   handleIncomingRequest performs the responder handshake, reads the card, compares its key with the
   proven one, checks its format and only then records the request (Model: [incoming]) *)
From Coq Require Import List String.
Import ListNotations.
Open Scope string_scope.
Lemma send_request_order :
  send_request_steps = [("handshake.RequestUsingReaderWriter", true); ("writer.WriteMsg", true);
                        ("c.metadataStore.ContactRequestOutgoingSent", true)].
Proof. reflexivity. Qed.
Lemma incoming_request_order :
  incoming_request_steps = [("handshake.ResponseUsingReaderWriter", true); ("reader.ReadMsg", true); ("bytes.Equal", true);
                            ("contact.CheckFormat", true); ("c.metadataStore.ContactRequestIncomingReceived", true)].
Proof. reflexivity. Qed.
