(* The responder/requester theorems of C06 are proved for a handshake that validates the peer's
   ephemeral key; this is what the current source does. *)
From Wesh Require Import Gen.Handshake.
Lemma handshake_validates : handshake_validates_peer_ephemeral = true.
Proof. reflexivity. Qed.

(* contact_request_manager.go: SendContactRequest performs the requester handshake FIRST and returns on
   its failure, then writes the own contact card, then marks the request as sent (Model: [outgoing]);
   handleIncomingRequest performs the responder handshake, reads the card, compares its key with the
   proven one, checks its format and only then records the request (Model: [incoming]) *)
From Coq Require Import List String.
Import ListNotations.
Open Scope string_scope.
Lemma send_request_order :
  send_request_steps = [("handshake.RequestUsingReaderWriter", true); ("writer.WriteMsg", true);
                        ("c.metadataStore.ContactRequestOutgoingSent", true)].
Proof. reflexivity. Qed.
Lemma incoming_request_order :
  incoming_request_steps = [("handshake.ResponseUsingReaderWriter", true); ("reader.ReadMsg", true); ("bytes.Equal", true);
                            ("contact.CheckFormat", true); ("c.metadataStore.ContactRequestIncomingReceived", true)].
Proof. reflexivity. Qed.

(* internal/handshake: each role performs its five steps in the order of the protocol, every step's failure
   returns at once, and the ONLY return without an error is the one at the very end (Model: [requester] /
   [responder] report success only after the last frame was accepted, [requester_vs_stalling] /
   [responder_vs_stalling]: no success while a frame is still missing) *)
Lemma requester_role_shape :
  requester_role_steps = [("hc.sendRequesterHello", true); ("hc.receiveResponderHello", true); ("hc.sendRequesterAuthenticate", true);
                          ("hc.receiveResponderAccept", true); ("hc.sendRequesterAcknowledge", true)] /\
  requester_role_returns = ["error"; "error"; "error"; "error"; "error"; "nil"].
Proof. split; reflexivity. Qed.
Lemma responder_role_shape :
  responder_role_steps = [("hc.receiveRequesterHello", true); ("hc.sendResponderHello", true); ("hc.receiveRequesterAuthenticate", true);
                          ("hc.sendResponderAccept", true); ("hc.receiveRequesterAcknowledge", true)] /\
  responder_role_returns = ["nil, error"; "nil, error"; "nil, error"; "nil, error"; "nil, error"; "hc.peerAccountID, nil"].
Proof. split; reflexivity. Qed.
