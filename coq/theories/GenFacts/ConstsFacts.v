(* Facts about constants re-extracted from /repo on every run (Gen/Consts.v). *)
From Coq Require Import NArith Lia.
From Wesh Require Import Gen.Consts.
Open Scope N_scope.

(* the receiver window is at least one key wide: the ratchet theorems need W >= 1 for
   retry completeness; they hold for every W, this instantiates them *)
Lemma precompute_message_key_count_pos : 1 <= precompute_message_key_count.
Proof. vm_compute. discriminate. Qed.

Lemma precompute_oos_refs_count_pos : 1 <= precompute_oos_refs_count.
Proof. vm_compute. discriminate. Qed.
