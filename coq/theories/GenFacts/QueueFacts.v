(* The facts about internal/queue/simple.go that the C15 theorems assume, re-proved against
   what the translator extracts from the current source. *)
From Coq Require Import List NArith String.
From Wesh Require Import Gen.Queue.
Import ListNotations.
Open Scope N_scope.

(* no_lost_wakeup is proved for every capacity >= 1 *)
Lemma signal_capacity_pos : 1 <= signal_capacity.
Proof. vm_compute. discriminate. Qed.

(* the synchronisation skeletons the LTS of Model/C15_Queue.v transcribes *)
Lemma skel_add_ok :
  skel_add = ["lock q.mu"; "defer unlock q.mu"; "select{send q.signal|default}"]%string.
Proof. reflexivity. Qed.

Lemma skel_wait_ok :
  skel_wait = ["lock q.mu"; "defer unlock q.mu"; "unlock q.mu"; "select{recv q.signal|recv ctx.Done()}"; "lock q.mu"]%string.
Proof. reflexivity. Qed.

Lemma skel_pop_ok : skel_pop = ["lock q.mu"; "defer unlock q.mu"]%string.
Proof. reflexivity. Qed.

(* priority.go: every exported method of PriorityQueue is ONE critical section of the queue mutex from its first
   to its last statement - NextAll too: its callbacks run under the lock - which is what lets Model.C15_Queue.pq_conc
   treat an operation of a task as one atomic step *)
Lemma pq_methods_are_critical_sections :
  pq_critical = [("Add", "whole"); ("NextAll", "whole"); ("Next", "whole"); ("Size", "whole")]%string /\
  skel_pq_nextall = ["lock pq.muMessages"; "defer unlock pq.muMessages"]%string.
Proof. split; reflexivity. Qed.
