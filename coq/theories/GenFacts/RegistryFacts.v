(* Facts about the generated description of reindexGroupDatastore (C20): the registry is fed by the
   joined multi-member groups and by the contacts of ALL six states a contact record can have. *)
From Coq Require Import List String.
From Wesh Require Import Gen.Registry.
Import ListNotations.
Open Scope string_scope.

Lemma registry_lists_every_contact :
  registry_sources = ["m.ListMultiMemberGroups"; "m.ListContactsByStatus"] /\
  registry_contact_states = ["ToRequest"; "Received"; "Added"; "Removed"; "Discarded"; "Blocked"].
Proof. split; reflexivity. Qed.
