(* Facts about the generated description of the index (C04, C13), re-proved against the current
   sources on every run: the index and the listings take the entries of the log in the total
   order (clock time, clock id, hash), the scan goes from the newest entry to the oldest, what is
   reset is what the model resets, and the handlers the model treats as "first event seen wins"
   are the ones that return at once when their subject is already indexed. *)
From Coq Require Import List Bool String.
From Wesh Require Import Gen.Index.
Import ListNotations.
Open Scope string_scope.

Lemma index_reads_the_log_order :
  index_entries_source = "sortedLogEntries(log)" /\
  sorted_entries_order = "sorting.SortByEntryHash, entries, false" /\
  index_scans_newest_first = true.
Proof. repeat split; reflexivity. Qed.

Lemma listings_read_the_log_order :
  list_events_sources = ["sortedLogEntries(m.OpLog())"; "sortedLogEntries(m.OpLog())"].
Proof. reflexivity. Qed.

(* members, devices, sent secrets and admins are NOT in this list: they persist between calls, as in
   Model.MetaLog.reset *)
Lemma index_resets_as_modelled :
  index_resets = ["contacts"; "contactsFromGroupPK"; "groups"; "contactRequestMetadata"; "contactRequestEnabled";
                  "contactRequestSeed"; "verifiedCredentials"; "handledEvents"].
Proof. reflexivity. Qed.

Definition first_wins_expected : list (string * bool) :=
  [("handleGroupMemberDeviceAdded", true); ("handleGroupDeviceChainKeyAdded", false);
   ("handleGroupJoined", true); ("handleGroupLeft", true);
   ("handleContactRequestDisabled", true); ("handleContactRequestEnabled", true);
   ("handleContactRequestReferenceReset", true);
   ("handleContactRequestOutgoingEnqueued", true); ("handleContactRequestOutgoingSent", true);
   ("handleContactRequestIncomingReceived", true); ("handleContactRequestIncomingDiscarded", true);
   ("handleContactRequestIncomingAccepted", true); ("handleContactBlocked", true); ("handleContactUnblocked", true);
   ("handleContactAliasKeyAdded", false); ("handleMultiMemberInitialMember", true);
   ("handleMultiMemberGrantAdminRole", false); ("handleGroupMetadataPayloadSent", false);
   ("handleAccountVerifiedCredentialRegistered", false)].

Lemma handlers_first_wins : index_handlers = first_wins_expected.
Proof. reflexivity. Qed.

(* alias keys (Model.C04_Alias): the handler only queues, the resolution happens in the post-index
   action, which UpdateIndex runs after the scan of the whole log and which walks its whole queue
   (no return inside the loop: an event it cannot resolve is skipped) *)
Lemma alias_resolution_is_deferred :
  alias_handler_touches = ["eventsContactAddAliasKey"] /\
  alias_post_action_touches = ["eventsContactAddAliasKey"; "unsafeGetMemberByDevice"; "ownMemberDevice"; "ownAliasKeySent"; "otherAliasKey"] /\
  post_index_actions = ["m.postHandlerSentAliases"] /\
  post_actions_run_after_scan = true /\
  alias_walk_can_stop_early = false.
Proof. repeat split; reflexivity. Qed.
