(* The lock scope of SealEnvelope assumed by the C09 model, re-proved against the current
   source: the message mutex is taken before the chain key is read and is released only on
   return (deferred), with sealing and the chain-key update in between. *)
From Coq Require Import List String.
From Wesh Require Import Gen.Seal.
Import ListNotations.
Open Scope string_scope.

Lemma skel_seal_ok :
  skel_seal = ["lock s.messageMutex"; "defer unlock s.messageMutex";
               "call getDeviceChainKeyForGroupAndDevice"; "call sealEnvelope"; "call deriveDeviceChainKey"].
Proof. reflexivity. Qed.

Lemma skel_derive_ok : skel_derive = ["call preComputeNextKey"; "call updateCurrentKey"].
Proof. reflexivity. Qed.

(* first use of a group: the own chain key is looked up and, on a miss, created and stored inside ONE
   critical section of the (exclusive) message mutex - the shape of Model.C11_FirstUse.fu_step *)
Lemma skel_own_chain_key_ok :
  skel_own_chain_key = ["lock s.messageMutex"; "defer unlock s.messageMutex";
                        "call getDeviceChainKeyForGroupAndDevice"; "call newDeviceChainKey"; "call registerChainKey"].
Proof. reflexivity. Qed.

(* registerChainKey has a branch that stores a chain key AS IT IS (no precomputed keys, no message mutex): it is
   meant for the chain key the device has just created for itself, and that is the only caller that asks for it
   (Model.Store.own_chain_muts).  An announcement read from the metadata log - the device's own one included,
   which comes back to it like any other - goes through the test below, which compares the local MEMBER key with
   the sender's DEVICE key; the model registers every announcement through the precomputing branch
   (Model.C02_Ratchet.RReg, [own := false]), in which an existing record is never replaced *)
Lemma register_branches_ok :
  register_public_own_test = "localMemberDevice.Member().Equals(senderDevicePublicKey)" /\
  register_public_passes = "hasSecretBeenSentByCurrentDevice" /\
  register_chain_key_callers = ["getOwnDeviceChainKeyForGroup: true"; "RegisterChainKey: hasSecretBeenSentByCurrentDevice"].
Proof. repeat split; reflexivity. Qed.

(* the receive path: OpenEnvelopePayload holds the (exclusive) message mutex from its first to its last statement -
   key look-up, opening and the bookkeeping that moves the window are ONE step with respect to every other delivery,
   which is what lets C02 treat concurrent deliveries as a history (Model.C02_Ratchet.rstep is atomic) *)
Lemma open_is_one_critical_section :
  skel_open = ["lock s.messageMutex"; "defer unlock s.messageMutex"; "call openPayload"; "call postDecryptActions"] /\
  open_critical = "whole".
Proof. split; reflexivity. Qed.
