(* The lock scope of SealEnvelope assumed by the C09 model, re-proved against the current
   source: the message mutex is taken before the chain key is read and is released only on
   return (deferred), with sealing and the chain-key update in between. *)
From Coq Require Import List String.
From Wesh Require Import Gen.Seal.
Import ListNotations.
Open Scope string_scope.

Lemma skel_seal_ok :
  skel_seal = ["lock s.messageMutex"; "defer unlock s.messageMutex";
               "call getDeviceChainKeyForGroupAndDevice"; "call sealEnvelope"; "call deriveDeviceChainKey"].
Proof. reflexivity. Qed.

Lemma skel_derive_ok : skel_derive = ["call preComputeNextKey"; "call updateCurrentKey"].
Proof. reflexivity. Qed.
