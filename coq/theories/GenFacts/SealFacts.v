(* The lock scope of SealEnvelope assumed by the C09 model, re-proved against the current
   source: the message mutex is taken before the chain key is read and is released only on
   return (deferred), with sealing and the chain-key update in between. *)
From Coq Require Import List String.
From Wesh Require Import Gen.Seal.
Import ListNotations.
Open Scope string_scope.

Lemma skel_seal_ok :
  skel_seal = ["lock s.messageMutex"; "defer unlock s.messageMutex";
               "call getDeviceChainKeyForGroupAndDevice"; "call sealEnvelope"; "call deriveDeviceChainKey"].
Proof. reflexivity. Qed.

Lemma skel_derive_ok : skel_derive = ["call preComputeNextKey"; "call updateCurrentKey"].
Proof. reflexivity. Qed.

(* first use of a group: the own chain key is looked up and, on a miss, created and stored inside ONE
   critical section of the (exclusive) message mutex - the shape of Model.C11_FirstUse.fu_step *)
Lemma skel_own_chain_key_ok :
  skel_own_chain_key = ["lock s.messageMutex"; "defer unlock s.messageMutex";
                        "call getDeviceChainKeyForGroupAndDevice"; "call newDeviceChainKey"; "call registerChainKey"].
Proof. reflexivity. Qed.
