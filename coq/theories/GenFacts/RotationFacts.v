(* The expiry test the C17 theorems are proved for is the one the source applies now. *)
From Wesh Require Import Model.C17_Rendezvous Gen.Rotation.

Lemma expiry_op_is_le : is_expired_op = CmpLe.
Proof. reflexivity. Qed.
