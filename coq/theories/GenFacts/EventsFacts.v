(* Facts about the generated event tables, re-proved against the current sources on every run
   (DESIGN.md appendix B: metadata event type -> required signer). *)
From Coq Require Import List NArith Bool String.
From Wesh Require Import Gen.Events.
Import ListNotations.
Open Scope N_scope.

Definition checker_eqb (a b : checker) : bool :=
  match a, b with
  | ChkDevice, ChkDevice | ChkGroup, ChkGroup | ChkMemberDevice, ChkMemberDevice => true
  | _, _ => false
  end.

(* appendix B *)
Definition documented_checker (t : N) : checker :=
  if t =? 302 then ChkGroup else if t =? 1 then ChkMemberDevice else ChkDevice.

(* every event type of the protocol except Undefined has a checker *)
Lemma all_types_mapped :
  forallb (fun tn => (snd tn =? 0) || existsb (fun r => fst r =? snd tn) event_checkers) event_types = true.
Proof. vm_compute. reflexivity. Qed.

(* the table assigns the documented signer to every type, and no type twice, and nothing to 0 *)
Lemma checkers_as_documented :
  forallb (fun r => checker_eqb (snd r) (documented_checker (fst r)) && negb (fst r =? 0)) event_checkers = true.
Proof. vm_compute. reflexivity. Qed.

Lemma checker_keys_distinct : NoDup (map fst event_checkers).
Proof. repeat constructor; cbn; intuition discriminate. Qed.

(* what each checker verifies: key, signed bytes, signature; every verdict is tested *)
Lemma device_checker_skeleton :
  chk_device_verifies = [("msg.GetDevicePk()", "metadata.Payload", "metadata.Sig")]%string /\
  chk_device_calls = [] /\ chk_device_ok_tests = 2%nat /\ chk_device_verdicts = 1%nat.
Proof. repeat split; reflexivity. Qed.

Lemma group_checker_skeleton :
  chk_group_verifies = [("g.GetPubKey", "metadata.Payload", "metadata.Sig")]%string /\
  chk_group_calls = [] /\ chk_group_ok_tests = 1%nat /\ chk_group_verdicts = 1%nat.
Proof. repeat split; reflexivity. Qed.

Lemma member_device_checker_skeleton :
  chk_member_device_verifies = [("msg.MemberPk", "msg.DevicePk", "msg.MemberSig")]%string /\
  chk_member_device_calls = ["sigCheckerDeviceSigned"]%string /\
  chk_member_device_ok_tests = 2%nat /\ chk_member_device_verdicts = 1%nat.
Proof. repeat split; reflexivity. Qed.

Lemma open_uses_the_table : open_consults_checker = true.
Proof. reflexivity. Qed.
