From Coq Require Import List NArith String.
Import ListNotations.
Lemma placeholder_notify_facts : True. Proof. exact I. Qed.
