(* Lock-order facts re-extracted from the concurrency files on every run (Gen/Locks.v):
   every nesting edge goes up a fixed ranking, hence the lock-order graph has no cycle;
   the connectedness manager and the lifecycle manager hand their own state mutex to
   notify.New (the waiter compares the state and waits under the lock the updaters hold). *)
From Coq Require Import List NArith Arith String Bool Lia.
From Wesh Require Import Gen.Locks.
Import ListNotations.
Open Scope string_scope.

Definition rank (l : string) : nat :=
  if String.eqb l "muPeers" then 0
  else if String.eqb l "muCache" then 1
  else if String.eqb l "muState" then 1
  else if String.eqb l "locker" then 1
  else if String.eqb l "notify.L" then 2
  else if String.eqb l "notify.mu" then 3
  else 100.   (* an unknown lock name fails the check below unless it only has incoming edges *)

Definition edge_ok (e : string * string * string) : bool :=
  let '(_, a, b) := e in Nat.ltb (rank a) (rank b) && Nat.ltb (rank b) 100.

Lemma lock_edges_ranked : forallb edge_ok lock_edges = true.
Proof. vm_compute. reflexivity. Qed.

(* soundness of the ranking argument: no lock is reachable from itself *)
Inductive path (es : list (string * string * string)) : string -> string -> Prop :=
| path_one f a b : In (f, a, b) es -> path es a b
| path_step f a b c : In (f, a, b) es -> path es b c -> path es a c.

Lemma ranked_path_increases es :
  forallb edge_ok es = true -> forall a b, path es a b -> (rank a < rank b)%nat.
Proof.
  intros H a b P. rewrite forallb_forall in H. induction P as [f a b Hin|f a b c Hin _ IH].
  - specialize (H _ Hin). cbn in H. apply andb_true_iff in H. destruct H as [H _]. apply Nat.ltb_lt in H. exact H.
  - specialize (H _ Hin). cbn in H. apply andb_true_iff in H. destruct H as [H _]. apply Nat.ltb_lt in H. lia.
Qed.

Theorem lock_order_acyclic : forall a, ~ path lock_edges a a.
Proof. intros a P. pose proof (ranked_path_increases _ lock_edges_ranked _ _ P). lia. Qed.

Lemma notify_locker_is_state_mutex :
  notify_locker = [("connectedness_manager.go", "muState"); ("pkg/lifecycle/manager.go", "locker")].
Proof. reflexivity. Qed.
