(* Facts about the generated description of the device keystore (C11): every method that may create a
   named key takes a.mu exclusively for its whole body (lock, deferred unlock) before it reads the
   keystore, and the shared helper getOrGenerateNamedKey is only reached from such methods. *)
From Coq Require Import List String.
From Wesh Require Import Gen.Keystore.
Import ListNotations.
Open Scope string_scope.

Lemma get_or_create_under_the_exclusive_lock :
  keystore_skeletons =
  [("getAccountPrivateKey", ["lock a.mu"; "defer unlock a.mu"; "call getOrGenerateNamedKey"]);
   ("getAccountProofPrivateKey", ["lock a.mu"; "defer unlock a.mu"; "call getOrGenerateNamedKey"]);
   ("devicePrivateKey", ["lock a.mu"; "defer unlock a.mu"; "call getOrGenerateNamedKey"]);
   ("contactGroupPrivateKey", ["call getOrComputeECDH"]);
   ("memberDeviceForMultiMemberGroup", ["call getOrGenerateDeviceKeyForMultiMemberGroup"]);
   ("getOrGenerateNamedKey", ["call Get"; "call Put"]);
   ("getOrGenerateDeviceKeyForMultiMemberGroup", ["lock a.mu"; "defer unlock a.mu"; "call getOrGenerateNamedKey"]);
   ("getOrComputeECDH", ["lock a.mu"; "defer unlock a.mu"; "call Get"; "call Put"]);
   ("computeMemberKeyForMultiMemberGroup", ["call getOrComputeECDH"]);
   ("restoreAccountKeys", ["call Put"])].
Proof. reflexivity. Qed.
