(* Facts about the generated handler table, re-proved against the current sources on every run (C19). *)
From Coq Require Import List NArith Bool String.
From Wesh Require Import Gen.Handlers.
Import ListNotations.

(* no handler calls panic; every use of the account group context is behind a nil test that returns *)
Lemma handlers_guarded :
  forallb (fun r => let '(_, _, guarded, panics) := r in guarded && negb panics) handler_table = true.
Proof. vm_compute. reflexivity. Qed.

Lemma helper_guards : aesgcm_decrypt_length_guard = true /\ aesctr_iv_length_guard = true.
Proof. split; reflexivity. Qed.

Lemma fixed_size_guards : group_secret_length_guard = true /\ push_nonce_length_checked = true.
Proof. split; reflexivity. Qed.
