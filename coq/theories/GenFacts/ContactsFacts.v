(* The guards of the seven contact operations, as GENERATED from store_metadata.go on every run,
   decide exactly like the model of C07 (Model.C07_Contacts.op_event) in all 7 x 7 cases. *)
From Coq Require Import List NArith Bool.
From Wesh Require Gen.Contacts.
From Wesh Require Import Model.MetaLog Model.C07_Contacts.
Import ListNotations.
Open Scope N_scope.

Module G := Gen.Contacts.

Definition all_states : list cstate := [CUndef; CToRequest; CReceived; CAdded; CRemoved; CDiscarded; CBlocked].
Definition all_kinds : list G.opkind := [G.KEnq; G.KSent; G.KRecv; G.KDisc; G.KAcc; G.KBlock; G.KUnblock].

Fixpoint lookup_kind (k : G.opkind) (t : list (G.opkind * list (N * G.verdict))) : list (N * G.verdict) :=
  match t with
  | [] => []
  | (k', row) :: t' =>
      if match k, k' with
         | G.KEnq, G.KEnq | G.KSent, G.KSent | G.KRecv, G.KRecv | G.KDisc, G.KDisc
         | G.KAcc, G.KAcc | G.KBlock, G.KBlock | G.KUnblock, G.KUnblock => true
         | _, _ => false
         end
      then row else lookup_kind k t'
  end.

Fixpoint lookup_state (n : N) (row : list (N * G.verdict)) : G.verdict :=
  match row with [] => G.VUnknown | (m, v) :: r => if m =? n then v else lookup_state n r end.

(* what the source does for operation k in state st; a delegation to ContactRequestOutgoingSent is
   resolved through that operation's own row *)
Definition source_verdict (k : G.opkind) (st : cstate) : G.verdict :=
  match lookup_state (cstate_code st) (lookup_kind k G.guard_table) with
  | G.VSent => lookup_state (cstate_code st) (lookup_kind G.KSent G.guard_table)
  | v => v
  end.

(* what the model does: run op_event on a well-formed operation about contact 5 (own key 1) *)
Definition state_with (st : cstate) : gstate :=
  match st with CUndef => ginit | _ => set_contact ginit 5 (mkC st 0 0 None) end.

Definition op_of (k : G.opkind) : cop :=
  let c := mkCI (PkOk 5) (SdOk 9) 3 in
  match k with
  | G.KEnq => OEnq c 4 | G.KSent => OSent 5 | G.KRecv => ORecv c | G.KDisc => ODisc 5
  | G.KAcc => OAcc 5 | G.KBlock => OBlock 5 | G.KUnblock => OUnblock 5
  end.

Definition model_verdict (k : G.opkind) (st : cstate) : G.verdict :=
  match op_event 1 (state_with st) (op_of k) with
  | None => G.VRefuse
  | Some (EEnq _ _ _ _) => G.VAppend 106
  | Some (ESent _) => G.VAppend 107
  | Some (ERecv _ _ _) => G.VAppend 108
  | Some (EDisc _) => G.VAppend 109
  | Some (EAcc _) => G.VAppend 110
  | Some (EBlock _) => G.VAppend 111
  | Some (EUnblock _) => G.VAppend 112
  | Some _ => G.VUnknown
  end.

Definition verdict_eqb (a b : G.verdict) : bool :=
  match a, b with
  | G.VAppend x, G.VAppend y => x =? y
  | G.VSent, G.VSent | G.VRefuse, G.VRefuse => true
  | _, _ => false
  end.

Lemma source_guards_are_the_model_guards :
  forallb (fun k => forallb (fun st => verdict_eqb (source_verdict k st) (model_verdict k st)) all_states) all_kinds = true.
Proof. vm_compute. reflexivity. Qed.

(* format and own-key tests in front of the guards: Enqueue checks the full format, IncomingReceived
   allows a missing seed, both and Block refuse the account's own key *)
Lemma source_pre_checks :
  G.pre_checks = [(G.KEnq, (true, false, true)); (G.KSent, (false, false, false)); (G.KRecv, (false, true, true));
                  (G.KDisc, (false, false, false)); (G.KAcc, (false, false, false)); (G.KBlock, (false, false, true));
                  (G.KUnblock, (false, false, false))].
Proof. reflexivity. Qed.
