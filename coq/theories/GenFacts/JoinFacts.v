(* Facts about the generated description of GroupJoin, Group.IsValid and memberDeviceForGroup,
   re-proved against the current sources on every run (C12). *)
From Coq Require Import List NArith Bool String.
From Wesh Require Import Gen.Join.
Import ListNotations.
Open Scope string_scope.

Definition mentions (needle hay : string) : bool :=
  match index 0 needle hay with Some _ => true | None => false end.

(* GroupJoin returns before appending unless the group is a multi-member group, is valid, and the
   account is not a member yet; the append is the last statement *)
Lemma group_join_guarded :
  existsb (fun g => mentions "GroupType_GroupTypeMultiMember" g && mentions "!=" g) group_join_guards = true /\
  existsb (fun g => mentions "IsValid()" g && mentions "err!=nil" g) group_join_guards = true /\
  existsb (mentions "checkIfInGroup(g.PublicKey)") group_join_guards = true /\
  group_join_appends_last = true.
Proof. vm_compute. repeat split. Qed.

(* IsValid verifies the secret against the secret signature under the group's public key and
   tests the verdict *)
Lemma is_valid_skeleton :
  is_valid_verifies = [("m.GetPubKey", "m.Secret", "m.SecretSig")] /\ is_valid_ok_tests = 1%nat.
Proof. split; reflexivity. Qed.

(* the account key is the member key in account and contact groups only *)
Lemma identity_by_group_type :
  account_key_group_types = ["GroupType_GroupTypeAccount"; "GroupType_GroupTypeContact"] /\
  derived_key_group_types = ["GroupType_GroupTypeMultiMember"].
Proof. split; reflexivity. Qed.

(* the service joins by invitation through GroupJoin alone and writes nothing to the secret store
   (PutGroup keeps the FIRST group written for an identifier: an unchecked group stored before the
   check would shadow the genuine one); creating a group stores it only after GroupJoin succeeded *)
Lemma service_checks_before_it_stores :
  service_join_steps = [("accountGroup.MetadataStore().GroupJoin", true)] /\
  service_create_steps = [("accountGroup.MetadataStore().GroupJoin", true); ("s.secretStore.PutGroup", true)].
Proof. split; reflexivity. Qed.
