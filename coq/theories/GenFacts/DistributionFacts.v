(* Facts about the generated description of the two paths by which a device registers the chain
   keys addressed to its member (C05, group_context.go): both hand every announcement the filter
   lets through to RegisterChainKey, and the filter rejects by type, by decoding and by the
   destination member only - never by what the log says about the sender. *)
From Coq Require Import List String.
From Wesh Require Import Gen.Distribution.
Import ListNotations.
Open Scope string_scope.

Lemma history_path_registers_all_addressed :
  scan_skips = ["metadata==nil";
                "errcode.Is(err,errcode.ErrCode_ErrInvalidInput)||errcode.Is(err,errcode.ErrCode_ErrGroupSecretOtherDestMember)";
                "err!=nil"] /\
  scan_loop_rest = ["pk, encryptedDeviceChainKey, err := getAndFilterGroupDeviceChainKeyAddedPayload(metadata.Metadata,gc.MemberPubKey())";
                    "publishedSecrets[pk] = encryptedDeviceChainKey"] /\
  fill_steps = ["publishedSecrets := gc.metadataStoreListSecrets()";
                "range publishedSecrets";
                "  if err := gc.SecretStore().RegisterChainKey(gc.ctx,gc.Group(),senderPublicKey,encryptedSecret); err!=nil";
                "  if rawPK, err := senderPublicKey.Raw(); err==nil"].
Proof. repeat split; reflexivity. Qed.

Lemma live_path_registers_all_addressed :
  live_chain_key_steps = ["senderPublicKey, encryptedDeviceChainKey, err := getAndFilterGroupDeviceChainKeyAddedPayload(e.Metadata,gc.ownMemberDevice.Member())";
                          "switch err";
                          "if err = gc.SecretStore().RegisterChainKey(gc.ctx,gc.Group(),senderPublicKey,encryptedDeviceChainKey); err!=nil";
                          "if rawPK, err := senderPublicKey.Raw(); err==nil"] /\
  live_ignored_errors = ["errcode.ErrCode_ErrInvalidInput"; "errcode.ErrCode_ErrGroupSecretOtherDestMember"].
Proof. split; reflexivity. Qed.

Lemma filter_rejects_by_destination_only :
  filter_rejects = ["m==nil||m.EventType!=protocoltypes.EventType_EventTypeGroupDeviceChainKeyAdded => errcode.ErrCode_ErrInvalidInput";
                    "proto.Unmarshal(m.Payload,s) ; err!=nil => errcode.ErrCode_ErrDeserialization.Wrap(err)";
                    "err!=nil => errcode.ErrCode_ErrDeserialization.Wrap(err)";
                    "err!=nil => errcode.ErrCode_ErrDeserialization.Wrap(err)";
                    "!localMemberPublicKey.Equals(destMemberPubKey) => errcode.ErrCode_ErrGroupSecretOtherDestMember"].
Proof. reflexivity. Qed.

(* ActivateGroupContext subscribes to the metadata events (and starts the live handler) BEFORE it scans the
   log as it stands: i_sub <= i_snap in Model.C05_Receive.registered_window *)
Lemma activation_subscribes_first :
  activate_order = ["Subscribe"; "handleGroupMetadataEvent"; "fillMessageKeysHolderUsingPreviousData";
                    "sendSecretsToExistingMembers"; "AddDeviceToGroup"].
Proof. reflexivity. Qed.
