(* C08 — the message pipeline of store_message.go as a labelled transition system with one step
   per scheduling point.  Definitions only.

   Threads: ARRIVAL (entries reaching addToMessageQueue, one per step, in any order the list
   gives), CONSUMER (processMessageLoop; its program counters are the scheduling points the
   check injects into the current source: WaitForItem, the lock/unlock of muDeviceCaches in
   getOrCreateDeviceCache, the park inside it, processMessage, the flush, the re-park) and
   REGISTRAR (RegisterChainKey followed by ProcessMessageQueueForDevicePK: lock, flush, unlock).
   The FIFO and the per-device priority queues are atomic objects here (their own
   synchronisation is C15's subject).  The secret store is abstracted to: the chain key of a
   device is known from some counter on; a message opens iff its counter is not below it. *)
From Coq Require Import List NArith Bool.
Import ListNotations.
Open Scope N_scope.

Record msg := mkMsg { m_dev : N; m_ctr : N; m_id : N }.

Definition msg_eqb (a b : msg) : bool := (m_dev a =? m_dev b) && (m_ctr a =? m_ctr b) && (m_id a =? m_id b).

Record cache := mkCache { known : bool; parked : list msg }.

Inductive cpc :=
| CWait
| CLock (m : msg)
| CParkIn (m : msg)               (* holds muDeviceCaches, key unknown: about to park *)
| CUnlock (m : msg) (k : bool)    (* holds muDeviceCaches *)
| CProc (m : msg)
| CFlush (m : msg)
| CRepark (m : msg).

Inductive rpc :=
| RReg
| RLock (d : N)
| RFlush (d : N)                  (* holds muDeviceCaches *)
| RUnlock (d : N).                (* holds muDeviceCaches *)

Inductive lockw := Free | HeldC | HeldR.

Record state := mkSt {
  fifo : list msg;
  caches : N -> option cache;
  keys : N -> option N;           (* device -> counter from which its chain key opens messages *)
  cons : cpc;
  reg : rpc;
  regs : list (N * N);            (* registrations still to come: device, first counter *)
  arrivals : list msg;            (* entries still to arrive *)
  arrived : list msg;             (* entries that have arrived *)
  delivered : list msg;           (* GroupMessageEvent emissions, in order *)
  lock : lockw
}.

Definition init (arr : list msg) (rs : list (N * N)) : state :=
  mkSt [] (fun _ => None) (fun _ => None) CWait RReg rs arr [] [] Free.

Definition upd {A} (f : N -> A) (k : N) (v : A) : N -> A := fun x => if x =? k then v else f x.

Definition decryptable (ks : N -> option N) (m : msg) : bool :=
  match ks (m_dev m) with Some c => c <=? m_ctr m | None => false end.

Definition key_known (ks : N -> option N) (d : N) : bool := match ks d with Some _ => true | None => false end.

(* heap order of the per-device queue: ascending counter *)
Fixpoint insert_ctr (m : msg) (l : list msg) : list msg :=
  match l with
  | [] => [m]
  | x :: l' => if m_ctr m <=? m_ctr x then m :: l else x :: insert_ctr m l'
  end.
Definition sort_ctr (l : list msg) : list msg := fold_right insert_ctr [] l.

Definition parked_of (s : state) (d : N) : list msg := match caches s d with Some c => parked c | None => [] end.
Definition flag_of (s : state) (d : N) : bool := match caches s d with Some c => known c | None => false end.

Inductive thread := TA | TC | TR.

Definition set_cons (s : state) (c : cpc) : state :=
  mkSt (fifo s) (caches s) (keys s) c (reg s) (regs s) (arrivals s) (arrived s) (delivered s) (lock s).

(* one step of a thread; None = not enabled *)
Definition step (s : state) (t : thread) : option state :=
  match t with
  | TA =>
      match arrivals s with
      | [] => None
      | m :: rest => Some (mkSt (fifo s ++ [m]) (caches s) (keys s) (cons s) (reg s) (regs s) rest (arrived s ++ [m]) (delivered s) (lock s))
      end
  | TC =>
      match cons s with
      | CWait =>
          match fifo s with
          | [] => None                               (* parked in WaitForItem *)
          | m :: rest => Some (mkSt rest (caches s) (keys s) (CLock m) (reg s) (regs s) (arrivals s) (arrived s) (delivered s) (lock s))
          end
      | CLock m =>
          match lock s with
          | Free =>
              let d := m_dev m in
              let c := match caches s d with Some c => c | None => mkCache (key_known (keys s) d) [] end in
              Some (mkSt (fifo s) (upd (caches s) d (Some c)) (keys s)
                         (if known c then CUnlock m true else CParkIn m)
                         (reg s) (regs s) (arrivals s) (arrived s) (delivered s) HeldC)
          | _ => None
          end
      | CParkIn m =>
          let d := m_dev m in
          Some (mkSt (fifo s) (upd (caches s) d (Some (mkCache false (parked_of s d ++ [m])))) (keys s)
                     (CUnlock m false) (reg s) (regs s) (arrivals s) (arrived s) (delivered s) (lock s))
      | CUnlock m k =>
          Some (mkSt (fifo s) (caches s) (keys s) (if k then CProc m else CWait)
                     (reg s) (regs s) (arrivals s) (arrived s) (delivered s) Free)
      | CProc m =>
          Some (set_cons s (if decryptable (keys s) m then CFlush m else CRepark m))
      | CFlush m =>
          let d := m_dev m in
          Some (mkSt (fifo s ++ sort_ctr (parked_of s d))
                     (upd (caches s) d (Some (mkCache (flag_of s d) [])))
                     (keys s) CWait (reg s) (regs s) (arrivals s) (arrived s) (delivered s ++ [m]) (lock s))
      | CRepark m =>
          let d := m_dev m in
          Some (mkSt (fifo s) (upd (caches s) d (Some (mkCache (flag_of s d) (parked_of s d ++ [m])))) (keys s)
                     CWait (reg s) (regs s) (arrivals s) (arrived s) (delivered s) (lock s))
      end
  | TR =>
      match reg s with
      | RReg =>
          match regs s with
          | [] => None
          | (d, c) :: rest =>
              Some (mkSt (fifo s) (caches s)
                         (match keys s d with Some _ => keys s | None => upd (keys s) d (Some c) end)
                         (cons s) (RLock d) rest (arrivals s) (arrived s) (delivered s) (lock s))
          end
      | RLock d =>
          match lock s with
          | Free =>
              match caches s d with
              | Some c =>
                  if key_known (keys s) d
                  then Some (mkSt (fifo s) (upd (caches s) d (Some (mkCache true (parked c)))) (keys s) (cons s) (RFlush d)
                                  (regs s) (arrivals s) (arrived s) (delivered s) HeldR)
                  else Some (mkSt (fifo s) (caches s) (keys s) (cons s) (RUnlock d) (regs s) (arrivals s) (arrived s) (delivered s) HeldR)
              | None => Some (mkSt (fifo s) (caches s) (keys s) (cons s) (RUnlock d) (regs s) (arrivals s) (arrived s) (delivered s) HeldR)
              end
          | _ => None
          end
      | RFlush d =>
          Some (mkSt (fifo s ++ sort_ctr (parked_of s d)) (upd (caches s) d (Some (mkCache true []))) (keys s) (cons s) (RUnlock d)
                     (regs s) (arrivals s) (arrived s) (delivered s) (lock s))
      | RUnlock d =>
          Some (mkSt (fifo s) (caches s) (keys s) (cons s) RReg (regs s) (arrivals s) (arrived s) (delivered s) Free)
      end
  end.

Inductive reachable (s0 : state) : state -> Prop :=
| reach_init : reachable s0 s0
| reach_step s t s' : reachable s0 s -> step s t = Some s' -> reachable s0 s'.

Definition quiescent (s : state) : Prop := forall t, step s t = None.

(* ---- the pinned code, for the refutation: the park happened after muDeviceCaches was released,
   and the registrar re-injected only the head of the parked queue ---- *)
Definition step_pinned (s : state) (t : thread) : option state :=
  match t, cons s, reg s with
  | TC, CParkIn m, _ => None   (* unused: parks outside the lock, see CUnlock *)
  | TC, CLock m, _ =>
      match lock s with
      | Free =>
          let d := m_dev m in
          let c := match caches s d with Some c => c | None => mkCache (key_known (keys s) d) [] end in
          Some (mkSt (fifo s) (upd (caches s) d (Some c)) (keys s) (CUnlock m (known c))
                     (reg s) (regs s) (arrivals s) (arrived s) (delivered s) HeldC)
      | _ => None
      end
  | TC, CUnlock m false, _ =>
      (* unlock, THEN park: CRepark appends to the parked queue without the lock *)
      Some (mkSt (fifo s) (caches s) (keys s) (CRepark m) (reg s) (regs s) (arrivals s) (arrived s) (delivered s) Free)
  | TC, CRepark m, _ =>
      let d := m_dev m in
      let k := match caches s d with Some c => known c | None => false end in
      Some (mkSt (fifo s) (upd (caches s) d (Some (mkCache k (parked_of s d ++ [m])))) (keys s)
                 CWait (reg s) (regs s) (arrivals s) (arrived s) (delivered s) (lock s))
  | TR, _, RFlush d =>
      (* only the head of the parked queue is re-injected *)
      match sort_ctr (parked_of s d) with
      | [] => Some (mkSt (fifo s) (caches s) (keys s) (cons s) (RUnlock d) (regs s) (arrivals s) (arrived s) (delivered s) (lock s))
      | h :: rest => Some (mkSt (fifo s ++ [h]) (upd (caches s) d (Some (mkCache true rest))) (keys s) (cons s) (RUnlock d)
                                (regs s) (arrivals s) (arrived s) (delivered s) (lock s))
      end
  | _, _, _ => step s t
  end.

Fixpoint run_pinned (s : state) (ts : list thread) : option state :=
  match ts with [] => Some s | t :: ts' => match step_pinned s t with Some s' => run_pinned s' ts' | None => None end end.

(* ---- correspondence ---- *)
Fixpoint follow (s : state) (ts : list thread) : option state :=
  match ts with [] => Some s | t :: ts' => match step s t with Some s' => follow s' ts' | None => None end end.

Definition ids (l : list msg) : list N := map m_id l.

Fixpoint nlist_eqb (a b : list N) : bool :=
  match a, b with
  | [], [] => true
  | x :: a', y :: b' => (x =? y) && nlist_eqb a' b'
  | _, _ => false
  end.

(* thread codes of the harness: 0 arrival, 1 consumer, 2 registrar *)
Definition thread_of (n : N) : thread := if n =? 0 then TA else if n =? 1 then TC else TR.

Inductive case :=
| CRun (arr : list msg) (rs : list (N * N)) (sched : list N)
       (delivered_ids : list N) (fifo_ids : list N) (parked_ids : list (N * list N))
       (consumer_waiting : bool).

Definition case_ok (c : case) : bool :=
  match c with
  | CRun arr rs sched del ff pk cw =>
      match follow (init arr rs) (map thread_of sched) with
      | None => false
      | Some s =>
          nlist_eqb (ids (delivered s)) del && nlist_eqb (ids (fifo s)) ff &&
          forallb (fun '(d, l) => nlist_eqb (ids (sort_ctr (parked_of s d))) l) pk &&
          Bool.eqb (match cons s with CWait => true | _ => false end) cw
      end
  end.

Fixpoint mismatches_from (i : N) (cs : list case) : list N :=
  match cs with
  | [] => []
  | c :: cs' => if case_ok c then mismatches_from (i + 1) cs' else i :: mismatches_from (i + 1) cs'
  end.
Definition mismatches (cs : list case) : list N := mismatches_from 0 cs.
