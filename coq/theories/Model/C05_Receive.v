(* C05 (receiving side) — how a device comes to hold the chain keys addressed to its member
   (group_context.go).  Definitions only.

   ActivateGroupContext first subscribes to the metadata events that arrive from now on (the live
   path: handleGroupMetadataEvent), then scans the log as it stands (the history path:
   fillMessageKeysHolderUsingPreviousData over metadataStoreListSecrets).  Both register every
   chain-key announcement addressed to the own member, whoever the sender is and whether or not
   the sender's device announcement is already in the log: a joining device publishes its chain
   keys for the existing members BEFORE it announces itself, and a replica may hold any causally
   closed prefix of the log when it is activated.

   [before] is the log at activation (in any order), [after] the entries that arrive later, in
   arrival order. *)
From Coq Require Import List NArith Bool.
From Wesh Require Export Model.C05_ChainKeyAnn.
Import ListNotations.
Open Scope N_scope.

Definition addressed (me : N) (e : entry) : list N :=
  match e with ChainKeyFor s m => if m =? me then [s] else [] | _ => [] end.

(* history path: every announcement addressed to me *)
Definition scan (me : N) (before : list entry) : list N := flat_map (addressed me) before.
(* live path: the same, entry by entry *)
Definition live (me : N) (after : list entry) : list N := flat_map (addressed me) after.

Definition registered (me : N) (before after : list entry) : list N := scan me before ++ live me after.

Definition holds (me : N) (before after : list entry) (s : N) : bool := existsb (N.eqb s) (registered me before after).

(* ---- the two instants of an activation ----
   [L]: the metadata entries in the order in which they reach this replica.  The live path sees the
   entries that arrive once the subscription exists (from index [i_sub] on); the history path sees
   the log as it stands when the scan takes its snapshot (the first [i_snap] entries).  In
   ActivateGroupContext the subscription comes first, so i_sub <= i_snap: an entry that arrives in
   between is seen by BOTH paths (registering twice is harmless, C02_reregister_noop); were the scan
   to come first, such an entry would be seen by neither. *)
Definition registered_window (me : N) (L : list entry) (i_sub i_snap : nat) : list N :=
  scan me (firstn i_snap L) ++ live me (skipn i_sub L).

Definition holds_window (me : N) (L : list entry) (i_sub i_snap : nat) (s : N) : bool :=
  existsb (N.eqb s) (registered_window me L i_sub i_snap).

(* ---- a variant that wants the sender's device announcement first ----
   live path: an announcement of a not yet announced sender is put aside and registered when the
   device announcement arrives; history path: such an announcement is skipped.  Each half looks
   reasonable; together they lose keys (Proofs.C05_Receive.guarded_scan_loses_a_key). *)

Definition announced (log : list entry) (s : N) : bool := existsb (N.eqb s) (devices log).

Definition scan_guarded (me : N) (before : list entry) : list N :=
  filter (announced before) (scan me before).

(* state of the live path: the log seen so far, what is registered, what is put aside *)
Fixpoint live_deferred (me : N) (seen : list entry) (pending : list N) (after : list entry) : list N :=
  match after with
  | [] => []
  | e :: rest =>
      match e with
      | ChainKeyFor s m =>
          if m =? me then
            if announced seen s then s :: live_deferred me (seen ++ [e]) pending rest
            else live_deferred me (seen ++ [e]) (s :: pending) rest
          else live_deferred me (seen ++ [e]) pending rest
      | MemberDevice _ d =>
          if existsb (N.eqb d) pending
          then d :: live_deferred me (seen ++ [e]) (filter (fun x => negb (x =? d)) pending) rest
          else live_deferred me (seen ++ [e]) pending rest
      end
  end.

Definition registered_guarded (me : N) (before after : list entry) : list N :=
  scan_guarded me before ++ live_deferred me before [] after.

(* the variant repaired: the history path puts the skipped announcements aside as well *)
Definition scan_pending (me : N) (before : list entry) : list N :=
  filter (fun s => negb (announced before s)) (scan me before).
Definition registered_deferred (me : N) (before after : list entry) : list N :=
  scan_guarded me before ++ live_deferred me before (scan_pending me before) after.

(* ---- correspondence (distribution stream): the converged log with what every device holds
   (checked by the log-level model), and, per device, the log it held when it was activated, the
   entries that arrived afterwards, its member, and for the other devices whether it holds their
   key ---- *)
Inductive case :=
| DDist (log : list entry) (pairs : list (N * N * bool))
| DRecv (me : N) (before after : list entry) (obs : list (N * bool)).

Definition check_case (c : case) : bool :=
  match c with
  | DDist log pairs => C05_ChainKeyAnn.check_case (CDist log pairs)
  | DRecv me before after obs =>
      forallb (fun p => Bool.eqb (holds me before after (fst p)) (snd p)) obs
  end.

Fixpoint mismatches_from (i : N) (cs : list case) : list N :=
  match cs with
  | [] => []
  | c :: cs' => if check_case c then mismatches_from (i + 1) cs' else i :: mismatches_from (i + 1) cs'
  end.
Definition mismatches := mismatches_from 0.
