(* C20 — account export and restore (account_export.go), symbolically.  Definitions only.

   An archive is a list of files.  A log entry is content-addressed: its identifier is the hash
   of its bytes, so the bytes of an entry determine its identifier AND, through the parent links
   they contain, the identifiers of all its ancestors (Merkle DAG).  A node of the model therefore
   carries [n_cid], the identifier re-computed from the content, and [n_anc], its ancestors.
   Private keys are identifiers. *)
From Coq Require Import List NArith Bool.
Import ListNotations.
Open Scope N_scope.

Record node := mkNode { n_cid : N; n_anc : list N }.

Inductive keyname := KAccount | KProof.
Inductive blob := BKey (k : N) | BBad | BEmpty.     (* a marshalled Ed25519 private key / other bytes / no bytes *)

Inductive file :=
| FKey (which : keyname) (b : blob)
| FEntry (claimed : N) (content : option node)     (* entries/<claimed>; None: bytes that do not decode *)
| FHeads (g : N) (parses : bool) (meta msg : list N)
| FOther.                                           (* unknown name or non-regular entry: skipped *)

(* one group of the exporting node: entries and heads of its two logs *)
Record glog := mkGlog { gl_entries : list node; gl_heads : list N }.
Record xgroup := mkXG { xg_id : N; xg_meta : glog; xg_msg : glog }.
Record xstate := mkXS { xs_account : N; xs_proof : N; xs_groups : list xgroup }.

(* service.export: the two keys, then per open group the entries of both logs and the heads *)
Definition export_group (g : xgroup) : list file :=
  map (fun n => FEntry (n_cid n) (Some n)) (gl_entries (xg_meta g)) ++
  map (fun n => FEntry (n_cid n) (Some n)) (gl_entries (xg_msg g)) ++
  [FHeads (xg_id g) true (gl_heads (xg_meta g)) (gl_heads (xg_msg g))].

Definition export (s : xstate) : list file :=
  FKey KAccount (BKey (xs_account s)) :: FKey KProof (BKey (xs_proof s)) :: flat_map export_group (xs_groups s).

(* ---- RestoreAccountExport ---- *)
Record rlog := mkRlog { rl_heads : list N; rl_entries : list N }.   (* identifiers *)
Record rstate := mkRS {
  r_dag : list node;
  r_account : option blob;
  r_proof : option blob;
  r_logs : list (N * (rlog * rlog))
}.

Definition rinit : rstate := mkRS [] None None [].

Inductive failure := Rejected | Stuck.   (* Stuck: waits for entries that are nowhere to be found *)

Fixpoint find_node (c : N) (d : list node) : option node :=
  match d with [] => None | n :: d' => if n_cid n =? c then Some n else find_node c d' end.

Definition present (d : list node) (c : N) : bool := match find_node c d with Some _ => true | None => false end.

(* loading heads into a replication-mode store: the heads and all their ancestors, provided every
   one of them is in the local DAG *)
Definition load (d : list node) (heads : list N) : option rlog :=
  if forallb (present d) heads then
    let need := heads ++ flat_map (fun h => match find_node h d with Some n => n_anc n | None => [] end) heads in
    if forallb (present d) need then Some (mkRlog heads need) else None
  else None.

Definition rstep (s : rstate) (f : file) : rstate + failure :=
  match f with
  | FKey which b =>
      match b with
      | BEmpty => inr Rejected
      | _ =>
          match which with
          | KAccount => match r_account s with
                        | Some _ => inr Rejected      (* multiple keys found in archive *)
                        | None => inl (mkRS (r_dag s) (Some b) (r_proof s) (r_logs s))
                        end
          | KProof => match r_proof s with
                      | Some _ => inr Rejected
                      | None => inl (mkRS (r_dag s) (r_account s) (Some b) (r_logs s))
                      end
          end
      end
  | FEntry claimed None => inr Rejected
  | FEntry claimed (Some n) =>
      if n_cid n =? claimed then inl (mkRS (n :: r_dag s) (r_account s) (r_proof s) (r_logs s))
      else inr Rejected                                (* entry CID doesn't match file CID *)
  | FHeads g false _ _ => inr Rejected
  | FHeads g true meta msg =>
      match load (r_dag s) meta, load (r_dag s) msg with
      | Some lm, Some ls => inl (mkRS (r_dag s) (r_account s) (r_proof s) ((g, (lm, ls)) :: r_logs s))
      | _, _ => inr Stuck
      end
  | FOther => inl s
  end.

Fixpoint rfiles (s : rstate) (fs : list file) : rstate + failure :=
  match fs with
  | [] => inl s
  | f :: fs' => match rstep s f with inl s' => rfiles s' fs' | inr e => inr e end
  end.

(* post-processing: import the two keys into the node's secret store (C11: refused on a store that
   holds an account, for malformed blobs and for equal keys) *)
Definition import_ok (has_account : bool) (a p : option blob) : bool :=
  match a, p with
  | Some (BKey x), Some (BKey y) => negb has_account && negb (x =? y)
  | _, _ => false
  end.

Definition restore (has_account : bool) (fs : list file) : rstate + failure :=
  match rfiles rinit fs with
  | inl s => if import_ok has_account (r_account s) (r_proof s) then inl s else inr Rejected
  | inr e => inr e
  end.

(* ---- correspondence cases ---- *)
Fixpoint mem (x : N) (l : list N) : bool := match l with [] => false | y :: l' => (x =? y) || mem x l' end.
Definition subset (a b : list N) : bool := forallb (fun x => mem x b) a.
Definition same_set (a b : list N) : bool := subset a b && subset b a.

Fixpoint lookup_log (g : N) (l : list (N * (rlog * rlog))) : option (rlog * rlog) :=
  match l with [] => None | (g', x) :: l' => if g' =? g then Some x else lookup_log g l' end.

(* observed outcome: 0 restored, 1 rejected, 2 no completion *)
Inductive case :=
| CRestore (has_account : bool) (fs : list file) (outcome : N)
           (restored : list (N * (list N * list N * list N * list N))).  (* g -> meta heads, meta entries, msg heads, msg entries *)

Definition case_ok (c : case) : bool :=
  match c with
  | CRestore ha fs out obs =>
      match restore ha fs with
      | inr Rejected => out =? 1
      | inr Stuck => out =? 2
      | inl s =>
          (out =? 0) &&
          forallb (fun '(g, (mh, me, sh, se)) =>
                     match lookup_log g (r_logs s) with
                     | Some (lm, ls) => same_set (rl_heads lm) mh && same_set (rl_entries lm) me &&
                                        same_set (rl_heads ls) sh && same_set (rl_entries ls) se
                     | None => false
                     end) obs
      end
  end.

Fixpoint mismatches_from (i : N) (cs : list case) : list N :=
  match cs with
  | [] => []
  | c :: cs' => if case_ok c then mismatches_from (i + 1) cs' else i :: mismatches_from (i + 1) cs'
  end.
Definition mismatches (cs : list case) : list N := mismatches_from 0 cs.
