(* C16 — executable model of internal/notify/notify.go and of its three clients
   (connectedness_manager.go after the single-locker repair, pkg/lifecycle/manager.go,
   pkg/tinder/peer_cache.go) as one labelled transition system, one step per scheduling
   point (lock / unlock of the client's locker L and of Notify.mu, close, select).
   Definitions only.

   All three clients have the same shape:
     waiter : L.Lock; loop { if diff(state, view) <> [] then break;
                             getChan (mu.Lock .. mu.Unlock); L.Unlock; select{signal|ctx}; L.Lock };
              L.Unlock; return
     updater: L.Lock; change state; if it matters: Broadcast (mu.Lock; close cc; mu.Unlock); L.Unlock
   They differ in the data only: a map key -> (listed?, value) and the waiter's view key -> value.
   Channels are numbered in creation order; at most one is open ([cc]); a numbered channel other
   than [cc] is closed. *)
From Coq Require Import List NArith Bool.
Import ListNotations.
Open Scope N_scope.

(* ---------- data ---------- *)

Definition data := list (N * (bool * N)).     (* sorted by key: key -> (listed in the group/topic, value) *)
Definition view := list (N * N).              (* the waiter's `current` map, sorted by key *)

Fixpoint dget (d : data) (k : N) : bool * N :=
  match d with [] => (false, 0) | (k', x) :: d' => if k' =? k then x else dget d' k end.
Fixpoint dset (d : data) (k : N) (x : bool * N) : data :=
  match d with
  | [] => [(k, x)]
  | (k', y) :: d' => if k' =? k then (k, x) :: d' else if k <? k' then (k, x) :: (k', y) :: d' else (k', y) :: dset d' k x
  end.
Fixpoint vget (v : view) (k : N) : option N :=
  match v with [] => None | (k', x) :: v' => if k' =? k then Some x else vget v' k end.
Fixpoint vset (v : view) (k : N) (x : N) : view :=
  match v with
  | [] => [(k, x)]
  | (k', y) :: v' => if k' =? k then (k, x) :: v' else if k <? k' then (k, x) :: (k', y) :: v' else (k', y) :: vset v' k x
  end.

Inductive uop :=
| UAssoc (k : N)          (* ConnectednessManager.AssociatePeer *)
| UUpd (k v : N)          (* ConnectednessManager.UpdateState / lifecycle.Manager.UpdateState *)
| UTouch (k v : N).       (* peersCache.UpdatePeer with new information, stamp v *)

(* new data, and whether the updater broadcasts *)
Definition app (d : data) (o : uop) : data * bool :=
  match o with
  | UAssoc k => let '(a, v) := dget d k in if a then (d, false) else (dset d k (true, v), true)
  | UUpd k v => let '(a, v0) := dget d k in if v0 =? v then (d, false) else (dset d k (a, v), a)
  | UTouch k v => (dset d k (true, v), true)
  end.

(* keys listed whose value the view does not have *)
Fixpoint diff (d : data) (v : view) : list N :=
  match d with
  | [] => []
  | (k, (a, x)) :: d' =>
    let rest := diff d' v in
    if a then match vget v k with
              | Some y => if y =? x then rest else k :: rest
              | None => k :: rest
              end
    else rest
  end.

Fixpoint sync (d : data) (v : view) (ks : list N) : view :=
  match ks with [] => v | k :: ks' => sync d (vset v k (snd (dget d k))) ks' end.

(* ---------- threads ---------- *)

Inductive wpc :=
| WStart | WLock | WNmuLock | WNmuUnlock | WLUnlock | WSelect | WParked | WRelock
| WRet (updated : list N) (ok : bool) | WDone.

Record waiter := {
  w_pc : wpc; w_calls : nat; w_view : view; w_sig : N; w_ok : bool;
  w_keep : bool;                      (* the client updates the view (false for lifecycle) *)
  w_res : list (list N * bool);       (* results, newest first *)
}.

Inductive upc := UStart | ULock | UNmuLock | UClose | UNmuUnlock | ULUnlock | UDone.

Inductive owner := Nobody | WaiterO (b : bool) | UpdaterO.

Record state := {
  lockL : owner; lockN : owner;
  cc : option N; gen : N;
  dat : data; cancelled : bool;
  wa : waiter; wb : waiter;
  u_pc : upc; u_ops : list uop;
  canceller : option bool;
}.

Definition getw (s : state) (b : bool) : waiter := if b then wb s else wa s.

Definition mk (l n : owner) (c : option N) (g : N) (d : data) (k : bool) (a b : waiter) (up : upc)
           (uo : list uop) (kc : option bool) : state :=
  {| lockL := l; lockN := n; cc := c; gen := g; dat := d; cancelled := k; wa := a; wb := b;
     u_pc := up; u_ops := uo; canceller := kc |}.

Definition setw (s : state) (b : bool) (w : waiter) : state :=
  if b then mk (lockL s) (lockN s) (cc s) (gen s) (dat s) (cancelled s) (wa s) w (u_pc s) (u_ops s) (canceller s)
  else mk (lockL s) (lockN s) (cc s) (gen s) (dat s) (cancelled s) w (wb s) (u_pc s) (u_ops s) (canceller s).

Definition with_locks (s : state) (l n : owner) : state :=
  mk l n (cc s) (gen s) (dat s) (cancelled s) (wa s) (wb s) (u_pc s) (u_ops s) (canceller s).

Definition wmk (pc : wpc) (w : waiter) : waiter :=
  {| w_pc := pc; w_calls := w_calls w; w_view := w_view w; w_sig := w_sig w; w_ok := w_ok w;
     w_keep := w_keep w; w_res := w_res w |}.

Definition is_open (s : state) (c : N) : bool :=
  match cc s with Some c' => c' =? c | None => false end.

Definition owner_free (o : owner) : bool := match o with Nobody => true | _ => false end.

(* the check at the head of the waiter's loop, with L held *)
Definition check (s : state) (w : waiter) : waiter :=
  let d := diff (dat s) (w_view w) in
  match d with
  | [] => wmk WNmuLock w
  | _ => {| w_pc := WRet d true; w_calls := w_calls w;
            w_view := if w_keep w then sync (dat s) (w_view w) d else w_view w;
            w_sig := w_sig w; w_ok := w_ok w; w_keep := w_keep w; w_res := w_res w |}
  end.

Definition wake (c : option N) (okv : bool) (w : waiter) : waiter :=
  match w_pc w with
  | WParked =>
    match c with
    | Some ch => if w_sig w =? ch
                 then {| w_pc := WRelock; w_calls := w_calls w; w_view := w_view w; w_sig := w_sig w;
                         w_ok := okv; w_keep := w_keep w; w_res := w_res w |}
                 else w
    | None => {| w_pc := WRelock; w_calls := w_calls w; w_view := w_view w; w_sig := w_sig w;
                 w_ok := okv; w_keep := w_keep w; w_res := w_res w |}
    end
  | _ => w
  end.

Definition wstep (s : state) (b : bool) : list state :=
  let w := getw s b in
  match w_pc w with
  | WStart => [setw s b (wmk (match w_calls w with O => WDone | _ => WLock end) w)]
  | WLock =>
    if owner_free (lockL s)
    then [setw (with_locks s (WaiterO b) (lockN s)) b (check s w)]
    else []
  | WNmuLock =>
    if owner_free (lockN s) then
      let '(c, g) := match cc s with Some c => (c, gen s) | None => (gen s, gen s + 1) end in
      [setw (mk (lockL s) (WaiterO b) (Some c) g (dat s) (cancelled s) (wa s) (wb s) (u_pc s) (u_ops s) (canceller s)) b
            {| w_pc := WNmuUnlock; w_calls := w_calls w; w_view := w_view w; w_sig := c; w_ok := w_ok w;
               w_keep := w_keep w; w_res := w_res w |}]
    else []
  | WNmuUnlock => [setw (with_locks s (lockL s) Nobody) b (wmk WLUnlock w)]
  | WLUnlock => [setw (with_locks s Nobody (lockN s)) b (wmk WSelect w)]
  | WSelect =>
    let go okv := setw s b {| w_pc := WRelock; w_calls := w_calls w; w_view := w_view w; w_sig := w_sig w;
                              w_ok := okv; w_keep := w_keep w; w_res := w_res w |} in
    if negb (is_open s (w_sig w)) then (if cancelled s then [go true; go false] else [go true])
    else if cancelled s then [go false]
    else [setw s b (wmk WParked w)]
  | WParked => []
  | WRelock =>
    if owner_free (lockL s) then
      if w_ok w then [setw (with_locks s (WaiterO b) (lockN s)) b (check s w)]
      else [setw (with_locks s (WaiterO b) (lockN s)) b (wmk (WRet [] false) w)]
    else []
  | WRet upd okv =>
    let calls' := pred (w_calls w) in
    [setw (with_locks s Nobody (lockN s)) b
          {| w_pc := if okv then (match calls' with O => WDone | _ => WLock end) else WDone;
             w_calls := calls'; w_view := w_view w; w_sig := w_sig w; w_ok := w_ok w;
             w_keep := w_keep w; w_res := (upd, okv) :: w_res w |}]
  | WDone => []
  end.

Definition ustep (s : state) : list state :=
  match u_pc s with
  | UStart => [mk (lockL s) (lockN s) (cc s) (gen s) (dat s) (cancelled s) (wa s) (wb s)
                  (match u_ops s with [] => UDone | _ => ULock end) (u_ops s) (canceller s)]
  | ULock =>
    match u_ops s with
    | [] => []
    | o :: _ =>
      if owner_free (lockL s) then
        let '(d', bc) := app (dat s) o in
        [mk UpdaterO (lockN s) (cc s) (gen s) d' (cancelled s) (wa s) (wb s)
            (if bc then UNmuLock else ULUnlock) (u_ops s) (canceller s)]
      else []
    end
  | UNmuLock =>
    if owner_free (lockN s) then
      [mk (lockL s) UpdaterO (cc s) (gen s) (dat s) (cancelled s) (wa s) (wb s)
          (match cc s with Some _ => UClose | None => UNmuUnlock end) (u_ops s) (canceller s)]
    else []
  | UClose =>
    [mk (lockL s) (lockN s) None (gen s) (dat s) (cancelled s) (wake (cc s) true (wa s)) (wake (cc s) true (wb s))
        UNmuUnlock (u_ops s) (canceller s)]
  | UNmuUnlock =>
    [mk (lockL s) Nobody (cc s) (gen s) (dat s) (cancelled s) (wa s) (wb s) ULUnlock (u_ops s) (canceller s)]
  | ULUnlock =>
    [mk Nobody (lockN s) (cc s) (gen s) (dat s) (cancelled s) (wa s) (wb s)
        (match tl (u_ops s) with [] => UDone | _ => ULock end) (tl (u_ops s)) (canceller s)]
  | UDone => []
  end.

Definition kstep (s : state) : list state :=
  match canceller s with
  | Some false =>
    [mk (lockL s) (lockN s) (cc s) (gen s) (dat s) true (wake None false (wa s)) (wake None false (wb s))
        (u_pc s) (u_ops s) (Some true)]
  | _ => []
  end.

(* thread ids: 0 waiter A, 1 waiter B, 2 updater, 99 canceller *)
Definition step (s : state) (tid : N) : list state :=
  if tid =? 0 then wstep s false
  else if tid =? 1 then wstep s true
  else if tid =? 2 then ustep s
  else kstep s.

Definition mkw (calls : nat) (v : view) (keep : bool) : waiter :=
  {| w_pc := WStart; w_calls := calls; w_view := v; w_sig := 0; w_ok := true; w_keep := keep; w_res := [] |}.

Definition init (d : data) (ca : nat) (va : view) (cb : nat) (vb : view) (keep : bool)
           (ops : list uop) (with_cancel : bool) : state :=
  {| lockL := Nobody; lockN := Nobody; cc := None; gen := 0; dat := d; cancelled := false;
     wa := mkw ca va keep; wb := mkw cb vb keep; u_pc := UStart; u_ops := ops;
     canceller := if with_cancel then Some false else None |}.

(* ---------- observables ---------- *)

Definition wstatus (s : state) (b : bool) : N :=
  match w_pc (getw s b) with
  | WStart => 0
  | WLock | WRelock => if owner_free (lockL s) then 1 else 5
  | WNmuLock => if owner_free (lockN s) then 1 else 5
  | WNmuUnlock | WLUnlock | WRet _ _ => 2
  | WSelect => 3
  | WParked => 7
  | WDone => 8
  end.

Definition ustatus (s : state) : N :=
  match u_pc s with
  | UStart => 0
  | ULock => if owner_free (lockL s) then 1 else 5
  | UNmuLock => if owner_free (lockN s) then 1 else 5
  | UClose => 4
  | UNmuUnlock | ULUnlock => 2
  | UDone => 8
  end.

Definition kstatus (s : state) : list N :=
  match canceller s with None => [] | Some false => [0] | Some true => [8] end.

(* waiter B is absent from the vector when it has no call to make and never started *)
Definition statuses (s : state) (two : bool) : list N :=
  wstatus s false :: (if two then [wstatus s true] else []) ++ [ustatus s] ++ kstatus s.

Fixpoint list_eqb (a b : list N) : bool :=
  match a, b with
  | [], [] => true
  | x :: a', y :: b' => (x =? y) && list_eqb a' b'
  | _, _ => false
  end.

Fixpoint follow (two : bool) (ss : list state) (sched : list N) (obs : list (list N)) : list state :=
  match sched, obs with
  | [], [] => ss
  | t :: sched', o :: obs' =>
    let next := flat_map (fun s => step s t) ss in
    follow two (filter (fun s => list_eqb (statuses s two) o) next) sched' obs'
  | _, _ => []
  end.

Definition res_eqb (a b : list N * bool) : bool := list_eqb (fst a) (fst b) && Bool.eqb (snd a) (snd b).
Fixpoint ress_eqb (a b : list (list N * bool)) : bool :=
  match a, b with
  | [], [] => true
  | x :: a', y :: b' => res_eqb x y && ress_eqb a' b'
  | _, _ => false
  end.

Inductive case :=
| CNotify (d : data) (ca : nat) (va : view) (cb : nat) (vb : view) (keep two : bool) (ops : list uop)
          (with_cancel : bool) (sched : list N) (obs : list (list N))
          (res_a res_b : list (list N * bool))
| CNotifyOracleOnly (steps : N).   (* per-waiter cancellation: decided by the harness oracle alone *)

Definition check_case (c : case) : bool :=
  match c with
  | CNotify d ca va cb vb keep two ops wc sched obs ra rb =>
    existsb (fun s => ress_eqb (rev (w_res (wa s))) ra && ress_eqb (rev (w_res (wb s))) rb)
            (follow two [init d ca va cb vb keep ops wc] sched obs)
  | CNotifyOracleOnly _ => true
  end.

Fixpoint mismatches_from (i : N) (cs : list case) : list N :=
  match cs with
  | [] => []
  | c :: cs' => if check_case c then mismatches_from (i + 1) cs' else i :: mismatches_from (i + 1) cs'
  end.
Definition mismatches := mismatches_from 0.
