(* C01 — sealed group messages: correspondence cases over the store model (Model/Store.v).
   A case is a receiver history (registrations and honest deliveries, as in C02) followed by
   the delivery of one envelope that may be forged, described symbolically.  Definitions only. *)
From Coq Require Import List NArith Bool.
From Wesh Require Import Model.Store Model.C02_Ratchet.
Import ListNotations.
Open Scope N_scope.

Inductive presented :=
| PHonest (d k : N)                       (* sender d's k-th envelope, byte for byte *)
| PForged (d ctr : N) (key : msgkey) (payload signer : N)
    (* headers rebuilt by a holder of the group secret: claims device d and counter ctr; the
       payload box is sealed with [key]; the signature attached is one made by [signer] over
       [payload] *)
| PForgedOwn (d ctr : N) (key : msgkey) (payload signer : N)
    (* the same, presented to the store whose own device is d *)
| PGarbage.                               (* headers or payload box do not open at all *)

Definition present (s : store) (p : presented) (cid : N) : result :=
  match p with
  | PHonest d k => fst (open_step s (honest_env grp d d k (d * 100000 + k)) cid None)
  | PForged d ctr key payload signer =>
    fst (open_step s {| e_group := grp; e_dev := d; e_ctr := ctr; e_key := key;
                        e_payload := payload; e_signer := signer |} cid None)
  | PForgedOwn d ctr key payload signer =>
    fst (open_step s {| e_group := grp; e_dev := d; e_ctr := ctr; e_key := key;
                        e_payload := payload; e_signer := signer |} cid (Some d))
  | PGarbage => RFail
  end.

Fixpoint run_store (W : nat) (s : store) (ops : list rop) : store :=
  match ops with [] => s | o :: ops' => run_store W (fst (rstep W s o)) ops' end.

Inductive case := CEnv (W : nat) (hist : list rop) (p : presented) (cid : N) (obs : out).

Definition check_case (c : case) : bool :=
  match c with
  | CEnv W hist p cid obs =>
    out_eqb (match present (run_store W empty_store hist) p cid with ROk x => OOk x | RFail => OFail end) obs
  end.

Fixpoint mismatches_from (i : N) (cs : list case) : list N :=
  match cs with
  | [] => []
  | c :: cs' => if check_case c then mismatches_from (i + 1) cs' else i :: mismatches_from (i + 1) cs'
  end.
Definition mismatches := mismatches_from 0.
