(* C18 — executable model of pkg/protoio length-delimited framing.
   Definitions only (no proofs): this file is what the correspondence check runs.

   Modelled code:
     pkg/protoio/varint.go  : varintWriter.WriteMsg (fallback path and fast path produce
                              the same bytes), varintReader.ReadMsg
     pkg/protoio/uint32.go  : uint32Writer.WriteMsg, uint32Reader.ReadMsg
     encoding/binary        : PutUvarint / ReadUvarint (MaxVarintLen64 = 10, overflow rule),
                              BigEndian/LittleEndian Uint32
     io.ReadFull, bufio     : a stream is a list of chunks; bytes are served in order
                              across chunk boundaries; empty chunks are legal reads.
   A byte is an N (< 256 for well-formed input).  The protobuf decoder of the body is an
   oracle: the list [oks] gives, per complete frame, whether proto.Unmarshal accepted it. *)
From Coq Require Import List NArith Bool.
Import ListNotations.
Open Scope N_scope.

Definition byte := N.
Definition bytes := list byte.
Definition chunks := list bytes.

Inductive err := EEOF | EUnexpectedEOF | EOverflow | EShortBuffer | EUnmarshal.

Inductive event := Msg (body : bytes) | Err (e : err).

(* ---------- stream primitives over chunked input ---------- *)

(* next byte of a chunked stream, skipping empty reads *)
Fixpoint take_byte (s : chunks) : option (byte * chunks) :=
  match s with
  | [] => None
  | [] :: s' => take_byte s'
  | (b :: c) :: s' => Some (b, c :: s')
  end.

(* io.ReadFull of n bytes: Some (data, rest) or None with the number of bytes obtained *)
Fixpoint take_n (n : nat) (s : chunks) : (bytes * chunks) :=
  match n with
  | O => ([], s)
  | S n' => match take_byte s with
            | None => ([], [])
            | Some (b, s') => let '(d, r) := take_n n' s' in (b :: d, r)
            end
  end.

(* ---------- uvarint ---------- *)

Fixpoint uvarint_enc_fuel (fuel : nat) (n : N) : bytes :=
  match fuel with
  | O => []
  | S f => if n <? 128 then [n] else (n mod 128 + 128) :: uvarint_enc_fuel f (n / 128)
  end.
Definition uvarint_enc (n : N) : bytes := uvarint_enc_fuel 10 n.

(* binary.ReadUvarint: i = index of the byte (0..9), x accumulated value, s = 7*i.
   Result: inl (value, rest) | inr error *)
Fixpoint uvarint_dec_loop (fuel : nat) (i : N) (x : N) (s : chunks) : (N * chunks) + err :=
  match fuel with
  | O => inr EOverflow
  | S f =>
    match take_byte s with
    | None => inr (if i =? 0 then EEOF else EUnexpectedEOF)
    | Some (b, s') =>
      if b <? 128 then
        if (i =? 9) && (1 <? b) then inr EOverflow
        else inl (x + b * 2 ^ (7 * i), s')
      else uvarint_dec_loop f (i + 1) (x + (b mod 128) * 2 ^ (7 * i)) s'
    end
  end.
Definition uvarint_dec (s : chunks) := uvarint_dec_loop 10 0 0 s.

(* ---------- fixed 32-bit prefix ---------- *)

Inductive order := BigEndian | LittleEndian.

Definition u32_enc (o : order) (n : N) : bytes :=
  let b0 := n mod 256 in
  let b1 := (n / 256) mod 256 in
  let b2 := (n / 65536) mod 256 in
  let b3 := (n / 16777216) mod 256 in
  match o with
  | LittleEndian => [b0; b1; b2; b3]
  | BigEndian => [b3; b2; b1; b0]
  end.

Definition u32_of (o : order) (d : bytes) : N :=
  match d with
  | [a; b; c; e] =>
    match o with
    | LittleEndian => a + 256 * b + 65536 * c + 16777216 * e
    | BigEndian => e + 256 * c + 65536 * b + 16777216 * a
    end
  | _ => 0
  end.

(* io.ReadFull(r, lenBuf[4]) *)
Definition u32_dec (o : order) (s : chunks) : (N * chunks) + err :=
  let '(d, r) := take_n 4 s in
  match length d with
  | 4%nat => inl (u32_of o d, r)
  | 0%nat => inr EEOF
  | _ => inr EUnexpectedEOF
  end.

(* ---------- writers ---------- *)

Inductive variant := Varint | U32 (o : order).

Definition prefix_enc (v : variant) (n : N) : bytes :=
  match v with Varint => uvarint_enc n | U32 o => u32_enc o n end.

Definition write_frame (v : variant) (m : bytes) : bytes :=
  prefix_enc v (N.of_nat (length m)) ++ m.

Definition write_frames (v : variant) (ms : list bytes) : bytes :=
  concat (map (write_frame v) ms).

(* ---------- readers ---------- *)

Definition prefix_dec (v : variant) (s : chunks) : (N * chunks) + err :=
  match v with Varint => uvarint_dec s | U32 o => u32_dec o s end.

(* reader state: remaining stream and the size of the reusable body buffer *)
Record rstate := { rs_stream : chunks; rs_buf : N }.

Definition int63_limit : N := 2 ^ 63.

(* one ReadMsg: event and new state.  [ok] = proto.Unmarshal verdict if a body is obtained. *)
Definition read_msg (v : variant) (max : N) (ok : bool) (st : rstate) : event * rstate :=
  match prefix_dec v (rs_stream st) with
  | inr e => (Err e, {| rs_stream := []; rs_buf := rs_buf st |})
  | inl (len, s') =>
    if (int63_limit <=? len) || (max <? len) then
      (Err EShortBuffer, {| rs_stream := s'; rs_buf := rs_buf st |})
    else
      let buf' := N.max (rs_buf st) len in
      let '(d, r) := take_n (N.to_nat len) s' in
      if N.of_nat (length d) =? len then
        (if ok then Msg d else Err EUnmarshal, {| rs_stream := r; rs_buf := buf' |})
      else
        (Err (match d with [] => EEOF | _ => EUnexpectedEOF end),
         {| rs_stream := []; rs_buf := buf' |})
  end.

(* the caller's loop: read until the first error; [oks] is consumed one verdict per
   complete body; fuel bounds the number of ReadMsg calls *)
Fixpoint read_all (fuel : nat) (v : variant) (max : N) (oks : list bool) (st : rstate)
  : list event * rstate :=
  match fuel with
  | O => ([], st)
  | S f =>
    let ok := match oks with [] => true | o :: _ => o end in
    let '(ev, st') := read_msg v max ok st in
    match ev with
    | Err _ => ([ev], st')
    | Msg _ => let '(evs, st'') := read_all f v max (tl oks) st' in (ev :: evs, st'')
    end
  end.

Definition init_rstate (s : chunks) : rstate := {| rs_stream := s; rs_buf := 0 |}.

(* what the correspondence check compares: events and final buffer size *)
Definition run_reader (v : variant) (max : N) (oks : list bool) (s : chunks) : list event * N :=
  let '(evs, st) := read_all (S (length (concat s))) v max oks (init_rstate s) in
  (evs, rs_buf st).

(* ---------- decidable equality for the differential check ---------- *)

Definition err_eqb (a b : err) : bool :=
  match a, b with
  | EEOF, EEOF | EUnexpectedEOF, EUnexpectedEOF | EOverflow, EOverflow
  | EShortBuffer, EShortBuffer | EUnmarshal, EUnmarshal => true
  | _, _ => false
  end.

Fixpoint bytes_eqb (a b : bytes) : bool :=
  match a, b with
  | [], [] => true
  | x :: a', y :: b' => (x =? y) && bytes_eqb a' b'
  | _, _ => false
  end.

Definition event_eqb (a b : event) : bool :=
  match a, b with
  | Msg x, Msg y => bytes_eqb x y
  | Err x, Err y => err_eqb x y
  | _, _ => false
  end.

Fixpoint events_eqb (a b : list event) : bool :=
  match a, b with
  | [], [] => true
  | x :: a', y :: b' => event_eqb x y && events_eqb a' b'
  | _, _ => false
  end.

(* a correspondence case: reader run / writer run, with what the implementation did *)
Inductive case :=
| CRead (v : variant) (max : N) (oks : list bool) (s : chunks) (obs_events : list event) (obs_buf : N)
| CWrite (v : variant) (ms : list bytes) (obs : bytes).

Definition check_case (c : case) : bool :=
  match c with
  | CRead v max oks s oe ob =>
    let '(evs, b) := run_reader v max oks s in events_eqb evs oe && (b =? ob)
  | CWrite v ms obs => bytes_eqb (write_frames v ms) obs
  end.

Fixpoint mismatches_from (i : N) (cs : list case) : list N :=
  match cs with
  | [] => []
  | c :: cs' => if check_case c then mismatches_from (i + 1) cs' else i :: mismatches_from (i + 1) cs'
  end.
Definition mismatches := mismatches_from 0.
