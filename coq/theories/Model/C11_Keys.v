(* C11 — key derivations of pkg/secretstore/device_keystore_wrapper.go and keys_utils.go as a
   state machine over a keystore (name -> key), symbolically.  Definitions only.

   A private key is a term: [Fresh n] (generated from the random source; n is unique) or
   [Agree a b] — the Ed25519 key made from the X25519 agreement of the private key a and the
   public half of b (symmetric: stored with a <= b).  Public halves share the identifier.
   The contact group of a pair is any injective function of [Agree account other]
   (HKDF -> group key, group secret); the member key in a multi-member group g is
   [Agree proof g]. *)
From Coq Require Import List NArith Bool.
Import ListNotations.
Open Scope N_scope.

Inductive key := Fresh (n : N) | Agree (a b : N).

Definition key_eqb (x y : key) : bool :=
  match x, y with
  | Fresh a, Fresh b => a =? b
  | Agree a b, Agree c d => (a =? c) && (b =? d)
  | _, _ => false
  end.

Definition agree (x : key) (pub : N) : key :=
  (* agreement of private key x with the public key identified by pub; only Fresh private keys
     occur as account / proof keys *)
  match x with
  | Fresh a => if a <=? pub then Agree a pub else Agree pub a
  | Agree a b => Agree a (b + pub + 1000000)   (* never used: derived keys are not agreed again *)
  end.

Inductive name := NAccount | NProof | NDevice | NMemberDevice (g : N) | NMember (g : N) | NContact (b : N).

Definition name_eqb (x y : name) : bool :=
  match x, y with
  | NAccount, NAccount | NProof, NProof | NDevice, NDevice => true
  | NMemberDevice a, NMemberDevice b | NMember a, NMember b | NContact a, NContact b => a =? b
  | _, _ => false
  end.

Record kstore := { ks : list (name * key); next : N }.   (* next: the random source *)

Fixpoint lookup (n : name) (l : list (name * key)) : option key :=
  match l with [] => None | (m, k) :: l' => if name_eqb m n then Some k else lookup n l' end.

(* getOrGenerateNamedKey *)
Definition get_or_generate (st : kstore) (n : name) : kstore * key :=
  match lookup n (ks st) with
  | Some k => (st, k)
  | None => ({| ks := (n, Fresh (next st)) :: ks st; next := next st + 1 |}, Fresh (next st))
  end.

(* getOrComputeECDH *)
Definition get_or_agree (st : kstore) (n : name) (pub : N) (own : key) : kstore * key :=
  match lookup n (ks st) with
  | Some k => (st, k)
  | None => let k := agree own pub in ({| ks := (n, k) :: ks st; next := next st |}, k)
  end.

Inductive gkind := GAccount | GContact | GMulti.

(* blobs handed to ImportAccountKeys *)
Inductive blob := BKey (k : key) | BEmpty | BGarbage | BNotEd25519.

Inductive op :=
| OAccount | OProof
| OGroupForContact (other : N)                 (* GetGroupForContact(public key of the other account) *)
| OMemberDevice (kind : gkind) (g : N)         (* GetOwnMemberDeviceForGroup *)
| OExport
| OImport (a p : blob).

Inductive out :=
| RKey (k : key)
| RPair (m d : key)        (* member, device — or account, proof for an export *)
| RGroup (k : key)         (* the contact group derived from this agreement key *)
| RRefused | RDone.

Definition kstep (st : kstore) (o : op) : kstore * out :=
  match o with
  | OAccount => let '(st1, k) := get_or_generate st NAccount in (st1, RKey k)
  | OProof => let '(st1, k) := get_or_generate st NProof in (st1, RKey k)
  | OGroupForContact b =>
    let '(st1, a) := get_or_generate st NAccount in
    let '(st2, k) := get_or_agree st1 (NContact b) b a in (st2, RGroup k)
  | OMemberDevice GMulti g =>
    let '(st1, p) := get_or_generate st NProof in
    let '(st2, m) := get_or_agree st1 (NMember g) g p in
    let '(st3, d) := get_or_generate st2 (NMemberDevice g) in (st3, RPair m d)
  | OMemberDevice GAccount _ =>
    (* GetGroupForAccount, then the member/device pair of that group *)
    let '(st1, a) := get_or_generate st NAccount in
    let '(st2, _) := get_or_generate st1 NProof in
    let '(st3, d) := get_or_generate st2 NDevice in (st3, RPair a d)
  | OMemberDevice GContact _ =>
    let '(st1, a) := get_or_generate st NAccount in
    let '(st2, d) := get_or_generate st1 NDevice in (st2, RPair a d)
  | OExport =>
    let '(st1, a) := get_or_generate st NAccount in
    let '(st2, p) := get_or_generate st1 NProof in (st2, RPair a p)
  | OImport ba bp =>
    match ba, bp with
    | BKey a, BKey p =>
      if key_eqb a p then (st, RRefused)
      else match lookup NAccount (ks st), lookup NProof (ks st) with
           | None, None => ({| ks := (NAccount, a) :: (NProof, p) :: ks st; next := next st |}, RDone)
           | _, _ => (st, RRefused)
           end
    | _, _ => (st, RRefused)
    end
  end.

(* a world of several stores with disjoint random sources *)
Definition world := list kstore.

Definition init_world (n : nat) : world :=
  map (fun i => {| ks := []; next := N.of_nat i * 1000 + 1 |}) (seq 1 n).

Fixpoint set_nth (i : nat) (x : kstore) (w : world) : world :=
  match w, i with
  | [], _ => []
  | _ :: w', O => x :: w'
  | y :: w', S i' => y :: set_nth i' x w'
  end.

Inductive wop :=
| WOp (i : nat) (o : op)
| WContact (i j : nat)            (* store i: GetGroupForContact(account public key of store j) *)
| WMemberContact (i j : nat)      (* store i: member/device pair in its contact group with store j *)
| WImportFrom (i j : nat) (mode : N).
   (* store i imports what store j exported last; mode 0: (account, proof); 1: swapped; 2: (account, account) *)

Definition key_id (k : key) : N := match k with Fresh n => n | Agree a b => a + b end.

Fixpoint wrun (w : world) (last_export : list (nat * (key * key))) (ops : list wop) : list out :=
  match ops with
  | [] => []
  | WOp i o :: ops' =>
    match nth_error w i with
    | None => RRefused :: wrun w last_export ops'
    | Some st =>
      let '(st', r) := kstep st o in
      let le := match o, r with OExport, RPair a p => (i, (a, p)) :: last_export | _, _ => last_export end in
      r :: wrun (set_nth i st' w) le ops'
    end
  | WContact i j :: ops' =>
    match nth_error w j with
    | None => RRefused :: wrun w last_export ops'
    | Some stj =>
      let '(stj', kj) := get_or_generate stj NAccount in
      let w1 := set_nth j stj' w in
      match nth_error w1 i with
      | None => RRefused :: wrun w1 last_export ops'
      | Some st => let '(st', r) := kstep st (OGroupForContact (key_id kj)) in r :: wrun (set_nth i st' w1) last_export ops'
      end
    end
  | WMemberContact i j :: ops' =>
    match nth_error w j with
    | None => RRefused :: wrun w last_export ops'
    | Some stj =>
      let '(stj', kj) := get_or_generate stj NAccount in
      let w1 := set_nth j stj' w in
      match nth_error w1 i with
      | None => RRefused :: wrun w1 last_export ops'
      | Some st =>
        let '(st1, _) := kstep st (OGroupForContact (key_id kj)) in
        let '(st2, r) := kstep st1 (OMemberDevice GContact 0) in r :: wrun (set_nth i st2 w1) last_export ops'
      end
    end
  | WImportFrom i j mode :: ops' =>
    match nth_error w i, find (fun e => Nat.eqb (fst e) j) last_export with
    | Some st, Some (_, (a, p)) =>
      let '(x, y) := if mode =? 0 then (a, p) else if mode =? 1 then (p, a) else (a, a) in
      let '(st', r) := kstep st (OImport (BKey x) (BKey y)) in r :: wrun (set_nth i st' w) last_export ops'
    | _, _ => RRefused :: wrun w last_export ops'
    end
  end.

(* observables are compared up to renaming of keys: number the distinct keys in order of first
   appearance *)
Fixpoint index_of (k : key) (seen : list key) (i : N) : option N :=
  match seen with [] => None | x :: s => if key_eqb x k then Some i else index_of k s (i + 1) end.

Definition num (k : key) (seen : list key) : N * list key :=
  match index_of k seen 0 with Some i => (i, seen) | None => (N.of_nat (length seen), seen ++ [k]) end.

Inductive cout := CKey (i : N) | CPair (i j : N) | CGroup (i : N) | CRefused | CDone.

Fixpoint canon (outs : list out) (seen : list key) : list cout :=
  match outs with
  | [] => []
  | RKey k :: r => let '(i, s) := num k seen in CKey i :: canon r s
  | RPair a b :: r => let '(i, s) := num a seen in let '(j, s') := num b s in CPair i j :: canon r s'
  | RGroup k :: r => let '(i, s) := num k seen in CGroup i :: canon r s
  | RRefused :: r => CRefused :: canon r seen
  | RDone :: r => CDone :: canon r seen
  end.

Definition cout_eqb (a b : cout) : bool :=
  match a, b with
  | CKey i, CKey j | CGroup i, CGroup j => i =? j
  | CPair i j, CPair k l => (i =? k) && (j =? l)
  | CRefused, CRefused | CDone, CDone => true
  | _, _ => false
  end.
Fixpoint couts_eqb (a b : list cout) : bool :=
  match a, b with
  | [], [] => true
  | x :: a', y :: b' => cout_eqb x y && couts_eqb a' b'
  | _, _ => false
  end.

Inductive case := CKeys (nstores : nat) (ops : list wop) (obs : list cout).

Definition check_case (c : case) : bool :=
  match c with CKeys n ops obs => couts_eqb (canon (wrun (init_world n) [] ops) []) obs end.

Fixpoint mismatches_from (i : N) (cs : list case) : list N :=
  match cs with
  | [] => []
  | c :: cs' => if check_case c then mismatches_from (i + 1) cs' else i :: mismatches_from (i + 1) cs'
  end.
Definition mismatches := mismatches_from 0.
