(* C09 — executable model of concurrent SecretStore.SealEnvelope calls on one group as a
   labelled transition system: one step per scheduling point (messageMutex lock / unlock and
   each datastore read or write of the message-key namespaces inside the critical section).
   Definitions only.

   SealEnvelope: Lock; Get chain key (c, ck); seal with counter c+1;
                 deriveDeviceChainKey: preComputeNextKey: Get chain key (c2); Put precomputed key c2+1;
                                       updateCurrentKey: Get chain key (cur); Put chain key c2+1 unless c2+1 < cur;
                 Unlock; return envelope.
   The lock word carries the holder's progress and locals (mutual exclusion is structural). *)
From Coq Require Import List NArith Bool.
Import ListNotations.
Open Scope N_scope.

Record holderst := { h_tid : nat; h_stage : nat; h_l1 : N; h_l2 : N; h_cur : N }.

Record sender := { s_started : bool; s_left : nat }.

Record state := {
  holder : option holderst;
  ctr : N;                 (* stored chain-key counter of the device *)
  pre : list N;            (* counters of the precomputed own keys written (ghost) *)
  senders : list sender;
  emitted : list N;        (* counters of the envelopes returned, in return order *)
}.

Definition set_sender (i : nat) (x : sender) (l : list sender) : list sender :=
  firstn i l ++ match skipn i l with [] => [] | _ :: r => x :: r end.

Definition sstep (s : state) (i : nat) : list state :=
  match nth_error (senders s) i with
  | None => []
  | Some x =>
    if negb (s_started x) then
      [{| holder := holder s; ctr := ctr s; pre := pre s;
          senders := set_sender i {| s_started := true; s_left := s_left x |} (senders s); emitted := emitted s |}]
    else
      match holder s with
      | None =>
        match s_left x with
        | O => []
        | S _ => [{| holder := Some {| h_tid := i; h_stage := 0; h_l1 := 0; h_l2 := 0; h_cur := 0 |};
                     ctr := ctr s; pre := pre s; senders := senders s; emitted := emitted s |}]
        end
      | Some h =>
        if negb (Nat.eqb (h_tid h) i) then []
        else
          match h_stage h with
          | 0%nat => [{| holder := Some {| h_tid := i; h_stage := 1; h_l1 := ctr s; h_l2 := h_l2 h; h_cur := h_cur h |};
                         ctr := ctr s; pre := pre s; senders := senders s; emitted := emitted s |}]
          | 1%nat => [{| holder := Some {| h_tid := i; h_stage := 2; h_l1 := h_l1 h; h_l2 := ctr s; h_cur := h_cur h |};
                         ctr := ctr s; pre := pre s; senders := senders s; emitted := emitted s |}]
          | 2%nat => [{| holder := Some {| h_tid := i; h_stage := 3; h_l1 := h_l1 h; h_l2 := h_l2 h; h_cur := h_cur h |};
                         ctr := ctr s; pre := (h_l2 h + 1) :: pre s; senders := senders s; emitted := emitted s |}]
          | 3%nat => [{| holder := Some {| h_tid := i; h_stage := 4; h_l1 := h_l1 h; h_l2 := h_l2 h; h_cur := ctr s |};
                         ctr := ctr s; pre := pre s; senders := senders s; emitted := emitted s |}]
          | 4%nat => [{| holder := Some {| h_tid := i; h_stage := 5; h_l1 := h_l1 h; h_l2 := h_l2 h; h_cur := h_cur h |};
                         ctr := if h_l2 h + 1 <? h_cur h then ctr s else h_l2 h + 1;
                         pre := pre s; senders := senders s; emitted := emitted s |}]
          | _ => [{| holder := None; ctr := ctr s; pre := pre s;
                     senders := set_sender i {| s_started := true; s_left := pred (s_left x) |} (senders s);
                     emitted := emitted s ++ [h_l1 h + 1] |}]
          end
      end
  end.

Definition init (c0 : N) (lefts : list nat) : state :=
  {| holder := None; ctr := c0; pre := [];
     senders := map (fun n => {| s_started := false; s_left := n |}) lefts; emitted := [] |}.

(* status codes: 0 start, 1 at lock (free), 5 at lock (held), 6 at a datastore operation,
   2 at unlock, 8 done *)
Definition sstatus (s : state) (i : nat) (x : sender) : N :=
  if negb (s_started x) then 0
  else match holder s with
       | Some h => if Nat.eqb (h_tid h) i
                   then (if Nat.leb 5 (h_stage h) then 2 else 6)
                   else match s_left x with O => 8 | _ => 5 end
       | None => match s_left x with O => 8 | _ => 1 end
       end.

Fixpoint sstatuses (s : state) (i : nat) (l : list sender) : list N :=
  match l with [] => [] | x :: l' => sstatus s i x :: sstatuses s (S i) l' end.
Definition statuses (s : state) : list N := sstatuses s 0 (senders s).

Fixpoint list_eqb (a b : list N) : bool :=
  match a, b with
  | [], [] => true
  | x :: a', y :: b' => (x =? y) && list_eqb a' b'
  | _, _ => false
  end.

Fixpoint follow (ss : list state) (sched : list N) (obs : list (list N)) : list state :=
  match sched, obs with
  | [], [] => ss
  | t :: sched', o :: obs' =>
    let next := flat_map (fun s => sstep s (N.to_nat t)) ss in
    follow (filter (fun s => list_eqb (statuses s) o) next) sched' obs'
  | _, _ => []
  end.

Fixpoint seqN (from : N) (n : nat) : list N :=
  match n with O => [] | S n' => from :: seqN (from + 1) n' end.

Inductive case :=
| CSeal (c0 : N) (lefts : list nat) (sched : list N) (obs : list (list N))
        (returned : list N) (final_ctr : N)
| CStress (c0 : N) (total : nat) (sorted_counters : list N) (final_ctr : N).

Definition check_case (c : case) : bool :=
  match c with
  | CSeal c0 lefts sched obs ret fc =>
    existsb (fun s => list_eqb (emitted s) ret && (ctr s =? fc)) (follow [init c0 lefts] sched obs)
  | CStress c0 total cs fc => list_eqb cs (seqN (c0 + 1) total) && (fc =? c0 + N.of_nat total)
  end.

Fixpoint mismatches_from (i : N) (cs : list case) : list N :=
  match cs with
  | [] => []
  | c :: cs' => if check_case c then mismatches_from (i + 1) cs' else i :: mismatches_from (i + 1) cs'
  end.
Definition mismatches := mismatches_from 0.
