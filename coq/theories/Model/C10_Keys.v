(* C10 — named keys across a stop (device_keystore_wrapper.go over the keystore of C11).
   Definitions only.

   Every operation of Model.C11_Keys.kstep is a sequence of at most three get-or-create steps, each of
   which reads one name and, when it is missing, writes it with ONE keystore put (getOrGenerateNamedKey,
   getOrComputeECDH); the import writes its two names one after the other, in either order (the code
   ranges over a Go map).  A stop can fall between any two puts: [kstates st o] lists the keystore
   states a stop during [o] can leave behind (the first is "nothing written", the last "all written").
   The random source is not rewound by a stop (a generated key is never generated again). *)
From Coq Require Import List NArith Bool.
From Wesh Require Import Model.C11_Keys.
Import ListNotations.
Open Scope N_scope.

Definition kstates (st : kstore) (o : op) : list kstore :=
  match o with
  | OAccount => [st; fst (get_or_generate st NAccount)]
  | OProof => [st; fst (get_or_generate st NProof)]
  | OGroupForContact b =>
    let '(st1, a) := get_or_generate st NAccount in
    [st; st1; fst (get_or_agree st1 (NContact b) b a)]
  | OMemberDevice GMulti g =>
    let '(st1, p) := get_or_generate st NProof in
    let '(st2, m) := get_or_agree st1 (NMember g) g p in
    [st; st1; st2; fst (get_or_generate st2 (NMemberDevice g))]
  | OMemberDevice GAccount _ =>
    let st1 := fst (get_or_generate st NAccount) in
    let st2 := fst (get_or_generate st1 NProof) in
    [st; st1; st2; fst (get_or_generate st2 NDevice)]
  | OMemberDevice GContact _ =>
    let st1 := fst (get_or_generate st NAccount) in
    [st; st1; fst (get_or_generate st1 NDevice)]
  | OExport =>
    let st1 := fst (get_or_generate st NAccount) in
    [st; st1; fst (get_or_generate st1 NProof)]
  | OImport (BKey a) (BKey p) =>
    if key_eqb a p then [st]
    else match lookup NAccount (ks st), lookup NProof (ks st) with
         | None, None =>
           [st; {| ks := (NAccount, a) :: ks st; next := next st |};
                {| ks := (NProof, p) :: ks st; next := next st |};
                fst (kstep st o)]
         | _, _ => [st]
         end
  | OImport _ _ => [st]
  end.

Fixpoint krun (st : kstore) (ops : list op) : kstore :=
  match ops with [] => st | o :: ops' => krun (fst (kstep st o)) ops' end.

(* every key the first store holds is held, unchanged, by the second *)
Definition extends (st st' : kstore) : Prop :=
  forall n k, lookup n (ks st) = Some k -> lookup n (ks st') = Some k.

Definition is_import (o : op) : bool := match o with OImport _ _ => true | _ => false end.

(* ---- correspondence: the names the keystore writes, in order, during the first use of a store ----
   [imported]: the account keys were imported first (those two puts are not listed: their order is
   that of a Go map).  Then, as the harness does: the group of the kind is obtained (kind 0: a
   multi-member group, nothing derived; 1: the account group; 2: the group of contact 9), its
   member/device pair is asked for, and the account keys are exported. *)
Definition first_use_ops (kind : N) : list op :=
  (if kind =? 0 then [OMemberDevice GMulti 7]
   else if kind =? 1 then [OMemberDevice GAccount 0]
   else [OGroupForContact 9; OMemberDevice GContact 9]) ++ [OExport].

Definition names_written (imported : bool) (kind : N) : list name :=
  let st0 := {| ks := []; next := 1 |} in
  let st1 := if imported then fst (kstep st0 (OImport (BKey (Fresh 101)) (BKey (Fresh 102)))) else st0 in
  let st2 := krun st1 (first_use_ops kind) in
  skipn (length (ks st1)) (rev (map fst (ks st2))).

Fixpoint names_eqb (a b : list name) : bool :=
  match a, b with
  | [], [] => true
  | x :: a', y :: b' => name_eqb x y && names_eqb a' b'
  | _, _ => false
  end.

Inductive case := CKeyWrites (imported : bool) (kind : N) (names : list name).

Definition check_case (c : case) : bool :=
  match c with CKeyWrites imported kind names => names_eqb (names_written imported kind) names end.

Fixpoint mismatches_from (i : N) (cs : list case) : list N :=
  match cs with
  | [] => []
  | c :: cs' => if check_case c then mismatches_from (i + 1) cs' else i :: mismatches_from (i + 1) cs'
  end.
Definition mismatches := mismatches_from 0.
