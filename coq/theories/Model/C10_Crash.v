(* C10 — crash points: every operation of the secret store is a list of datastore mutations
   (Model/Store.v); a crash state is the store after any prefix of that list (a batch commit
   is one mutation).  Definitions only. *)
From Coq Require Import List NArith Bool.
From Wesh Require Import Model.Store Model.C02_Ratchet.
Import ListNotations.
Open Scope N_scope.

(* mutations of one history operation (own device: 3; receiver of devices d with origin d) *)
Definition op_muts (W : nat) (s : store) (o : rop) : list mut :=
  match o with
  | RReg d c => register_muts W s grp d c (d, c) false
  | ROpen d k cid => snd (open_step s (honest_env grp d d k cid) cid (Some 3))
  | RKnown _ => []
  | RSealOwn d =>
    let m0 := own_chain_muts s grp d d in
    m0 ++ snd (seal_step (apply_muts s m0) grp d 0)
  end.

Definition op_out (W : nat) (s : store) (o : rop) : out :=
  match o with
  | ROpen d k cid => match fst (open_step s (honest_env grp d d k cid) cid (Some 3)) with ROk p => OOk p | RFail => OFail end
  | RKnown d => OBool (match s (KChain grp d) with Some _ => true | None => false end)
  | _ => ODone
  end.

Fixpoint run_muts (W : nat) (s : store) (ops : list rop) : list (list mut * out) :=
  match ops with
  | [] => []
  | o :: ops' => let ms := op_muts W s o in (ms, op_out W s o) :: run_muts W (apply_muts s ms) ops'
  end.

(* all crash states of one operation *)
Fixpoint prefixes {A} (l : list A) : list (list A) :=
  match l with [] => [[]] | x :: l' => [] :: map (cons x) (prefixes l') end.
Definition crash_states (W : nat) (s : store) (o : rop) : list store :=
  map (apply_muts s) (prefixes (op_muts W s o)).

(* ---------- equality of symbolic mutations ---------- *)

Definition dval_eqb (a b : dval) : bool :=
  match a, b with
  | VChain c ck, VChain c' ck' => (c =? c') && msgkey_eqb ck ck'
  | VKey k, VKey k' => msgkey_eqb k k'
  | VGroup g, VGroup g' => g =? g'
  | VFirstLast f l, VFirstLast f' l' => (f =? f') && (l =? l')
  | _, _ => false
  end.

Fixpoint kvs_eqb (a b : list (dkey * dval)) : bool :=
  match a, b with
  | [], [] => true
  | (k, v) :: a', (k', v') :: b' => dkey_eqb k k' && dval_eqb v v' && kvs_eqb a' b'
  | _, _ => false
  end.

Definition mut_eqb (a b : mut) : bool :=
  match a, b with
  | MPut k v, MPut k' v' => dkey_eqb k k' && dval_eqb v v'
  | MDel k, MDel k' => dkey_eqb k k'
  | MBatch l, MBatch l' => kvs_eqb l l'
  | _, _ => false
  end.

Fixpoint muts_eqb (a b : list mut) : bool :=
  match a, b with
  | [], [] => true
  | x :: a', y :: b' => mut_eqb x y && muts_eqb a' b'
  | _, _ => false
  end.

Fixpoint steps_eqb (a b : list (list mut * out)) : bool :=
  match a, b with
  | [], [] => true
  | (m, o) :: a', (m', o') :: b' => muts_eqb m m' && out_eqb o o' && steps_eqb a' b'
  | _, _ => false
  end.

Inductive case := CCrash (W : nat) (ops : list rop) (observed : list (list mut * out)).

Definition check_case (c : case) : bool :=
  match c with CCrash W ops obs => steps_eqb (run_muts W empty_store ops) obs end.

Fixpoint mismatches_from (i : N) (cs : list case) : list N :=
  match cs with
  | [] => []
  | c :: cs' => if check_case c then mismatches_from (i + 1) cs' else i :: mismatches_from (i + 1) cs'
  end.
Definition mismatches := mismatches_from 0.
