(* C11 — concurrent first use of a named key of the device keystore
   (pkg/secretstore/device_keystore_wrapper.go: getAccountPrivateKey, devicePrivateKey,
   getOrComputeECDH, ... all have the shape  lock a.mu; get; on a miss: make a key, put; unlock).
   Any number of threads ask for the same key; a labelled transition system with one step per lock
   operation.  Definitions only.  Keys are identifiers; [fresh] numbers the keys generated. *)
From Coq Require Import List NArith Bool.
Import ListNotations.
Open Scope N_scope.

Inductive tpc :=
| TStart                       (* about to lock *)
| TLocked (seen : option N)    (* holds the mutex, has read the keystore *)
| TDone (ret : N).             (* returned this key *)

Record fustate := mkFU {
  fu_store : option N;          (* the keystore slot *)
  fu_lock : option nat;         (* holder of a.mu *)
  fu_threads : list tpc;
  fu_fresh : N                  (* next key the generator hands out *)
}.

Definition fu_init (n : nat) : fustate := mkFU None None (repeat TStart n) 1.

Fixpoint set_nth {A} (i : nat) (x : A) (l : list A) : list A :=
  match i, l with
  | _, [] => []
  | O, _ :: l' => x :: l'
  | S i', y :: l' => y :: set_nth i' x l'
  end.

Definition fu_step (s : fustate) (i : nat) : option fustate :=
  match nth_error (fu_threads s) i with
  | Some TStart =>
      match fu_lock s with
      | None => Some (mkFU (fu_store s) (Some i) (set_nth i (TLocked (fu_store s)) (fu_threads s)) (fu_fresh s))
      | Some _ => None
      end
  | Some (TLocked (Some k)) =>
      Some (mkFU (fu_store s) None (set_nth i (TDone k) (fu_threads s)) (fu_fresh s))
  | Some (TLocked None) =>
      (* generate, put, (deferred) unlock, return *)
      Some (mkFU (Some (fu_fresh s)) None (set_nth i (TDone (fu_fresh s)) (fu_threads s)) (fu_fresh s + 1))
  | _ => None
  end.

Fixpoint fu_run (s : fustate) (sched : list nat) : option fustate :=
  match sched with
  | [] => Some s
  | i :: sched' => match fu_step s i with Some s' => fu_run s' sched' | None => None end
  end.

(* ---- the seeded shape: lookup under a shared lock, generation outside any lock, the exclusive lock
   only around the put, no second look ---- *)
Inductive upc := UStart | USaw (seen : option N) | UDone (ret : N).
Record ustate := mkU { u_store : option N; u_threads : list upc; u_fresh : N }.
Definition ustep (s : ustate) (i : nat) : option ustate :=
  match nth_error (u_threads s) i with
  | Some UStart => Some (mkU (u_store s) (set_nth i (USaw (u_store s)) (u_threads s)) (u_fresh s))
  | Some (USaw (Some k)) => Some (mkU (u_store s) (set_nth i (UDone k) (u_threads s)) (u_fresh s))
  | Some (USaw None) => Some (mkU (Some (u_fresh s)) (set_nth i (UDone (u_fresh s)) (u_threads s)) (u_fresh s + 1))
  | _ => None
  end.
Fixpoint urun (s : ustate) (sched : list nat) : option ustate :=
  match sched with [] => Some s | i :: r => match ustep s i with Some s' => urun s' r | None => None end end.
