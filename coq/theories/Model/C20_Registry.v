(* C20 — what a node that starts on restored state can open: the group registry of its secret store
   is rebuilt from the account log (service_group.go reindexGroupDatastore): the joined multi-member
   groups and the one-to-one group of every contact whose state is among the listed ones.  A group of
   the archive is reachable (ActivateGroup finds it by its public key) iff it is in that registry.
   Definitions only; contact states are the ones of Model.MetaLog. *)
From Coq Require Import List NArith Bool.
From Wesh Require Import Model.MetaLog.
Import ListNotations.
Open Scope N_scope.

(* what the account log says: contacts with their state, multi-member groups with joined/left *)
Record account_view := mkAV { av_contacts : list (N * cstate); av_groups : list (N * bool) }.

Definition cstate_eqb (a b : cstate) : bool := cstate_code a =? cstate_code b.

(* the one-to-one group of contact [pk] is identified by the contact (GetGroupForContact is injective, C11) *)
Inductive gid := GContactOf (pk : N) | GMultiMember (g : N).

Definition gid_eqb (a b : gid) : bool :=
  match a, b with
  | GContactOf x, GContactOf y | GMultiMember x, GMultiMember y => x =? y
  | _, _ => false
  end.

Definition registry (listed : list cstate) (v : account_view) : list gid :=
  map (fun g => GMultiMember (fst g)) (filter (fun g => snd g) (av_groups v)) ++
  map (fun c => GContactOf (fst c)) (filter (fun c => existsb (cstate_eqb (snd c)) listed) (av_contacts v)).

Definition reachable (listed : list cstate) (v : account_view) (g : gid) : bool := existsb (gid_eqb g) (registry listed v).

(* every state a contact with a record can be in *)
Definition all_states : list cstate := [CToRequest; CReceived; CAdded; CRemoved; CDiscarded; CBlocked].
