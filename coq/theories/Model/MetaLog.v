(* MetaLog — the metadata log of a group and the state derived from it
   (store_metadata_index.go: metadataStoreIndex.UpdateIndex and its handlers).  Definitions only.
   Shared by C04 (state is a function of the entry set), C07 (contact lifecycle) and C03.

   An entry carries its Lamport clock time, an identifier [e_id] standing for its rank in the
   (clock id, hash) order — the tie-break of go-ipfs-log's sorting.SortByEntryHash — and the
   event it opened to.  Keys, seeds, metadata blobs, groups, devices, members, credentials are
   identifiers; 0 stands for nil/empty where the code tests for nil (seed, metadata).

   UpdateIndex resets the per-account state, then scans the entries NEWEST FIRST in log order;
   every handler is "first event seen wins" (with older enqueue/received events backfilling the
   metadata and seed of a contact).  Members, devices, sent secrets and admins are NOT reset
   between two calls: [update_index] takes the previous index state. *)
From Coq Require Import List NArith Bool.
Import ListNotations.
Open Scope N_scope.

Inductive cstate := CUndef | CToRequest | CReceived | CAdded | CRemoved | CDiscarded | CBlocked.

Definition cstate_code (s : cstate) : N :=
  match s with
  | CUndef => 0 | CToRequest => 1 | CReceived => 2 | CAdded => 3
  | CRemoved => 4 | CDiscarded => 5 | CBlocked => 6
  end.

Inductive ev :=
| EEnq (pk meta seed own : N)     (* AccountContactRequestOutgoingEnqueued: contact, its metadata and seed, own metadata *)
| ESent (pk : N)
| ERecv (pk meta seed : N)        (* AccountContactRequestIncomingReceived *)
| EDisc (pk : N)
| EAcc (pk : N)
| EBlock (pk : N)
| EUnblock (pk : N)
| EEnable
| EDisable
| ESeed (s : N)                   (* AccountContactRequestReferenceReset *)
| EJoin (g : N)
| ELeave (g : N)
| EDevice (m d : N)               (* GroupMemberDeviceAdded *)
| ESecret (sender dest : N)       (* GroupDeviceChainKeyAdded *)
| EInit (m : N)                   (* MultiMemberGroupInitialMemberAnnounced *)
| ECred (c : N)                   (* AccountVerifiedCredentialRegistered *)
| ENoop (k : N)                   (* payload sent, replicating, admin role granted, alias resolver: no indexed state *)
| EAlias (d key : N).             (* ContactAliasKeyAdded: only queued by its handler, resolved after the scan (Model.C04_Alias) *)

Record entry := mkE { e_clock : N; e_id : N; e_ev : ev }.

(* ---- log order: (clock time, id), oldest first — sorting.SortByEntryHash ---- *)

Definition eleb (a b : entry) : bool :=
  (e_clock a <? e_clock b) || ((e_clock a =? e_clock b) && (e_id a <=? e_id b)).

Fixpoint insert (x : entry) (l : list entry) : list entry :=
  match l with
  | [] => [x]
  | y :: l' => if eleb x y then x :: l else y :: insert x l'
  end.

Definition sort_entries (l : list entry) : list entry := fold_right insert [] l.

(* ---- derived state ---- *)

Record crec := mkC { c_state : cstate; c_meta : N; c_seed : N; c_own : option N }.

Record gstate := mkG {
  g_contact : N -> option crec;
  g_enabled : option bool;
  g_seed : N;
  g_group : N -> option bool;      (* Some true: joined, Some false: left *)
  g_dev : N -> option N;           (* device -> member *)
  g_sent : N -> bool;              (* members our device has sent its secret to *)
  g_admin : N -> bool;
  g_creds : list N                 (* in scan order: newest first *)
}.

Definition ginit : gstate :=
  mkG (fun _ => None) None 0 (fun _ => None) (fun _ => None) (fun _ => false) (fun _ => false) [].

Definition upd {A} (f : N -> A) (k : N) (v : A) : N -> A := fun x => if x =? k then v else f x.

Definition nz (a b : N) : N := if a =? 0 then b else a.   (* a unless nil *)

Definition set_contact (s : gstate) (pk : N) (c : crec) : gstate :=
  mkG (upd (g_contact s) pk (Some c)) (g_enabled s) (g_seed s) (g_group s) (g_dev s) (g_sent s) (g_admin s) (g_creds s).

(* a contact event that carries only the key: sets the state if the contact is not indexed yet *)
Definition scan_plain (s : gstate) (pk : N) (st : cstate) : gstate :=
  match g_contact s pk with
  | Some _ => s
  | None => set_contact s pk (mkC st 0 0 None)
  end.

(* handlers, "first seen wins" *)
Definition hscan (own : N) (s : gstate) (e : ev) : gstate :=
  match e with
  | EEnq pk meta seed ownmd =>
      match g_contact s pk with
      | Some c => set_contact s pk (mkC (c_state c) (nz (c_meta c) meta) (nz (c_seed c) seed) (c_own c))
      | None => set_contact s pk (mkC CToRequest meta seed (Some ownmd))
      end
  | ERecv pk meta seed =>
      match g_contact s pk with
      | Some c => set_contact s pk (mkC (c_state c) (nz (c_meta c) meta) (nz (c_seed c) seed) (c_own c))
      | None => set_contact s pk (mkC CReceived meta seed None)
      end
  | ESent pk => scan_plain s pk CAdded
  | EDisc pk => scan_plain s pk CDiscarded
  | EAcc pk => scan_plain s pk CAdded
  | EBlock pk => scan_plain s pk CBlocked
  | EUnblock pk => scan_plain s pk CRemoved
  | EEnable =>
      match g_enabled s with
      | Some _ => s
      | None => mkG (g_contact s) (Some true) (g_seed s) (g_group s) (g_dev s) (g_sent s) (g_admin s) (g_creds s)
      end
  | EDisable =>
      match g_enabled s with
      | Some _ => s
      | None => mkG (g_contact s) (Some false) (g_seed s) (g_group s) (g_dev s) (g_sent s) (g_admin s) (g_creds s)
      end
  | ESeed sd =>
      mkG (g_contact s) (g_enabled s) (nz (g_seed s) sd) (g_group s) (g_dev s) (g_sent s) (g_admin s) (g_creds s)
  | EJoin g =>
      match g_group s g with
      | Some _ => s
      | None => mkG (g_contact s) (g_enabled s) (g_seed s) (upd (g_group s) g (Some true)) (g_dev s) (g_sent s) (g_admin s) (g_creds s)
      end
  | ELeave g =>
      match g_group s g with
      | Some _ => s
      | None => mkG (g_contact s) (g_enabled s) (g_seed s) (upd (g_group s) g (Some false)) (g_dev s) (g_sent s) (g_admin s) (g_creds s)
      end
  | EDevice m d =>
      match g_dev s d with
      | Some _ => s
      | None => mkG (g_contact s) (g_enabled s) (g_seed s) (g_group s) (upd (g_dev s) d (Some m)) (g_sent s) (g_admin s) (g_creds s)
      end
  | ESecret sender dest =>
      if sender =? own
      then mkG (g_contact s) (g_enabled s) (g_seed s) (g_group s) (g_dev s) (upd (g_sent s) dest true) (g_admin s) (g_creds s)
      else s
  | EInit m =>
      mkG (g_contact s) (g_enabled s) (g_seed s) (g_group s) (g_dev s) (g_sent s) (upd (g_admin s) m true) (g_creds s)
  | ECred c =>
      mkG (g_contact s) (g_enabled s) (g_seed s) (g_group s) (g_dev s) (g_sent s) (g_admin s) (g_creds s ++ [c])
  | ENoop _ => s
  | EAlias _ _ => s
  end.

(* what UpdateIndex clears before scanning *)
Definition reset (s : gstate) : gstate :=
  mkG (fun _ => None) None 0 (fun _ => None) (g_dev s) (g_sent s) (g_admin s) [].

(* scan of a list given NEWEST FIRST *)
Definition scan (own : N) (s : gstate) (newest_first : list ev) : gstate :=
  fold_left (hscan own) newest_first s.

(* UpdateIndex on a log holding the entries [es] (in any order) with previous index state [prev] *)
Definition update_index (own : N) (prev : gstate) (es : list entry) : gstate :=
  scan own (reset prev) (rev (map e_ev (sort_entries es))).

Definition index (own : N) (es : list entry) : gstate := update_index own ginit es.

(* the pinned behaviour before the repair: the scan followed the order in which the entries had
   ARRIVED in the replica's entry map, not the log order *)
Definition update_index_arrival (own : N) (prev : gstate) (arrival : list entry) : gstate :=
  scan own (reset prev) (rev (map e_ev arrival)).

(* ---- the same state, told forwards: apply the events in log order, the latest one about a
   subject winning ---- *)

Definition prev_meta (s : gstate) (pk : N) : N := match g_contact s pk with Some c => c_meta c | None => 0 end.
Definition prev_seed (s : gstate) (pk : N) : N := match g_contact s pk with Some c => c_seed c | None => 0 end.

Definition apply_plain (s : gstate) (pk : N) (st : cstate) : gstate :=
  set_contact s pk (mkC st (prev_meta s pk) (prev_seed s pk) None).

Definition happly (own : N) (s : gstate) (e : ev) : gstate :=
  match e with
  | EEnq pk meta seed ownmd =>
      set_contact s pk (mkC CToRequest (nz meta (prev_meta s pk)) (nz seed (prev_seed s pk)) (Some ownmd))
  | ERecv pk meta seed =>
      set_contact s pk (mkC CReceived (nz meta (prev_meta s pk)) (nz seed (prev_seed s pk)) None)
  | ESent pk => apply_plain s pk CAdded
  | EDisc pk => apply_plain s pk CDiscarded
  | EAcc pk => apply_plain s pk CAdded
  | EBlock pk => apply_plain s pk CBlocked
  | EUnblock pk => apply_plain s pk CRemoved
  | EEnable => mkG (g_contact s) (Some true) (g_seed s) (g_group s) (g_dev s) (g_sent s) (g_admin s) (g_creds s)
  | EDisable => mkG (g_contact s) (Some false) (g_seed s) (g_group s) (g_dev s) (g_sent s) (g_admin s) (g_creds s)
  | ESeed sd => mkG (g_contact s) (g_enabled s) (nz sd (g_seed s)) (g_group s) (g_dev s) (g_sent s) (g_admin s) (g_creds s)
  | EJoin g => mkG (g_contact s) (g_enabled s) (g_seed s) (upd (g_group s) g (Some true)) (g_dev s) (g_sent s) (g_admin s) (g_creds s)
  | ELeave g => mkG (g_contact s) (g_enabled s) (g_seed s) (upd (g_group s) g (Some false)) (g_dev s) (g_sent s) (g_admin s) (g_creds s)
  | EDevice m d => mkG (g_contact s) (g_enabled s) (g_seed s) (g_group s) (upd (g_dev s) d (Some m)) (g_sent s) (g_admin s) (g_creds s)
  | ESecret sender dest =>
      if sender =? own
      then mkG (g_contact s) (g_enabled s) (g_seed s) (g_group s) (g_dev s) (upd (g_sent s) dest true) (g_admin s) (g_creds s)
      else s
  | EInit m => mkG (g_contact s) (g_enabled s) (g_seed s) (g_group s) (g_dev s) (g_sent s) (upd (g_admin s) m true) (g_creds s)
  | ECred c => mkG (g_contact s) (g_enabled s) (g_seed s) (g_group s) (g_dev s) (g_sent s) (g_admin s) (c :: g_creds s)
  | ENoop _ => s
  | EAlias _ _ => s
  end.

(* log-order application, oldest first *)
Definition apply_log (own : N) (oldest_first : list ev) : gstate := fold_left (happly own) oldest_first ginit.

(* ---- hypotheses of the theorems ---- *)

(* one entry per identifier (identifiers stand for content hashes) *)
Definition ids_distinct (es : list entry) : Prop := NoDup (map e_id es).

(* a device is announced for one member only (what honest devices do; the announcement is signed
   by both keys) *)
Definition dev_functional (evs : list ev) : Prop :=
  forall m m' d, In (EDevice m d) evs -> In (EDevice m' d) evs -> m = m'.

(* the persisted parts of an index state come from events of the log *)
Definition persisted_from (s : gstate) (evs : list ev) (own : N) : Prop :=
  (forall d m, g_dev s d = Some m -> In (EDevice m d) evs) /\
  (forall m, g_sent s m = true -> In (ESecret own m) evs) /\
  (forall m, g_admin s m = true -> In (EInit m) evs).

(* ---- observation (what the getters of MetadataStore expose), for the correspondence check ---- *)

Record obs := mkObs {
  o_contacts : list (N * option (N * N * N * option N));  (* pk -> state code, metadata, seed, own metadata *)
  o_enabled : bool;
  o_seed : N;
  o_groups : list (N * option bool);
  o_devs : list (N * option N);
  o_sent : list (N * bool);
  o_admins : list (N * N);                (* member -> number of times ListAdmins reports it *)
  o_creds : list N
}.

Definition crec_obs (c : crec) := (cstate_code (c_state c), c_meta c, c_seed c, c_own c).

Definition observe (s : gstate) (pks groups devs members : list N) : obs :=
  mkObs (map (fun pk => (pk, option_map crec_obs (g_contact s pk))) pks)
        (match g_enabled s with Some true => true | _ => false end)
        (g_seed s)
        (map (fun g => (g, g_group s g)) groups)
        (map (fun d => (d, g_dev s d)) devs)
        (map (fun m => (m, g_sent s m)) members)
        (map (fun m => (m, if g_admin s m then 1 else 0)) members)
        (g_creds s).
