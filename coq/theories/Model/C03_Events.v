(* C03 — opening a group metadata envelope (events.go openGroupEnvelope, events_sig_checkers.go),
   symbolically.  Definitions only.

   Keys and byte strings are identifiers.  A signature is a term [SigBy k d]: made with the
   private half of key k over the bytes identified by d — the only way to obtain a signature
   that verifies under k over d (unforgeability); [SigNone]/[SigJunk] verify under nothing.
   A secretbox opens only under the secret it was sealed with ([e_boxkey]).
   The type -> checker table is the GENERATED one (Gen.Events.event_checkers). *)
From Coq Require Import List NArith Bool String.
From Wesh Require Import Gen.Events.
Import ListNotations.
Open Scope N_scope.

Inductive sigterm := SigBy (k : N) (over : N) | SigNone | SigJunk.

Definition verify (k : N) (s : sigterm) (data : N) : bool :=
  match s with SigBy k' d => (k' =? k) && (d =? data) | _ => false end.

(* a key field of an event: a valid Ed25519 key (with its byte identifier = key identifier), or
   bytes that are not a key / absent *)
Inductive keyfield := KeyOk (k : N) | KeyBad.

Record envelope := mkEnv {
  e_boxkey : N;            (* the secret the box was sealed under *)
  e_wellformed : bool;     (* envelope, metadata and payload all unmarshal *)
  e_type : N;              (* GroupMetadata.EventType *)
  e_payload : N;           (* identifier of the bytes GroupMetadata.Payload *)
  e_sig : sigterm;         (* GroupMetadata.Sig *)
  e_dev : keyfield;        (* DevicePk inside the payload *)
  e_member : keyfield;     (* MemberPk inside a GroupMemberDeviceAdded payload *)
  e_membersig : sigterm    (* MemberSig inside a GroupMemberDeviceAdded payload *)
}.

Fixpoint checker_of (t : N) (tbl : list (N * checker)) : option checker :=
  match tbl with
  | [] => None
  | (t', c) :: r => if t' =? t then Some c else checker_of t r
  end.

Definition check_device (e : envelope) : bool :=
  match e_dev e with KeyOk d => verify d (e_sig e) (e_payload e) | KeyBad => false end.

Definition run_checker (gpk : N) (c : checker) (e : envelope) : bool :=
  match c with
  | ChkGroup => verify gpk (e_sig e) (e_payload e)
  | ChkDevice => check_device e
  | ChkMemberDevice =>
      match e_member e, e_dev e with
      | KeyOk m, KeyOk d => verify m (e_membersig e) d && check_device e
      | _, _ => false
      end
  | ChkOther _ => false   (* not a checker of the pinned source: the generated facts exclude it *)
  end.

(* openGroupEnvelope for the group with secret [secret] and public key [gpk] *)
Definition open_env (secret gpk : N) (e : envelope) : bool :=
  (e_boxkey e =? secret) && e_wellformed e &&
  match checker_of (e_type e) event_checkers with
  | Some c => run_checker gpk c e
  | None => false
  end.

(* ---- correspondence cases ---- *)
Inductive case :=
| COpen (secret gpk : N) (e : envelope) (accepted : bool)
| CStore (rejected_entries : N).   (* store-level observation, decided by the harness oracle alone:
                                      rejected entries changed no indexed state and reached no subscriber *)

Definition case_ok (c : case) : bool :=
  match c with COpen s g e acc => Bool.eqb (open_env s g e) acc | CStore _ => true end.

Fixpoint mismatches_from (i : N) (cs : list case) : list N :=
  match cs with
  | [] => []
  | c :: cs' => if case_ok c then mismatches_from (i + 1) cs' else i :: mismatches_from (i + 1) cs'
  end.
Definition mismatches (cs : list case) : list N := mismatches_from 0 cs.
