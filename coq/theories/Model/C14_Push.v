(* C14 — out-of-store (push) payloads: model of SealOutOfStoreMessageEnvelope /
   OpenOutOfStoreMessage / OutOfStoreMessageOpen / UpdateOutOfStoreGroupReferences on top of
   the store model.  Definitions only.

   The group-reference set of a (group, sender) pair is represented by its recorded window
   [first, last) (outOfStoreGroupHintCounters); UpdateOutOfStoreGroupReferences makes the set of
   stored references exactly the window around the given counter, computed in uint64
   arithmetic (first - N and first + N wrap modulo 2^64). *)
From Coq Require Import List NArith Bool.
From Wesh Require Import Model.Store Model.C02_Ratchet.
Import ListNotations.
Open Scope N_scope.

Definition two64 : N := 18446744073709551616.
Definition wadd (a b : N) : N := (a + b) mod two64.
Definition wsub (a b : N) : N := (a + two64 - b mod two64) mod two64.

Definition refs_update (Nr : N) (s : store) (g d first : N) : store :=
  put (KFirstLast g d) (VFirstLast (wsub first Nr) (wadd first Nr)) s.

(* the loops `for i := first; i != last; i++` cover i iff (i - first) < (last - first), modulo 2^64 *)
Definition ref_known (s : store) (g d k : N) : bool :=
  match s (KFirstLast g d) with
  | Some (VFirstLast f l) => wsub k f <? wsub l f
  | _ => false
  end.

(* OpenOutOfStoreMessage: Some (payload, alreadyReceived) or None; new store *)
Definition push_step (Nr : N) (s : store) (e : envelope) (cid : N) : option (N * bool) * store :=
  let g := e_group e in let d := e_dev e in
  if negb (ref_known s g d (e_ctr e)) then (None, s)
  else
    let key := match get_cid s cid with
               | Some mk => Some (mk, false)
               | None => match get_pre s g d (e_ctr e) with Some mk => Some (mk, true) | None => None end
               end in
    match key with
    | None => (None, s)
    | Some (mk, newly) =>
      if negb (msgkey_eqb mk (e_key e)) then (None, s)
      else if negb (e_signer e =? d) then (None, s)
      else match precompute_next s g d with
           | None => (None, s)
           | Some (b, _) => (Some (e_payload e, negb newly), refs_update Nr (apply_mut s b) g d (e_ctr e))
           end
    end.

(* log delivery as MessageStore does it: open, then move the reference window on success *)
Definition log_step (Nr : N) (s : store) (e : envelope) (cid : N) : result * store :=
  let '(r, ms) := open_step s e cid None in
  let s1 := apply_muts s ms in
  (r, match r with ROk _ => refs_update Nr s1 (e_group e) (e_dev e) (e_ctr e) | RFail => s1 end).

(* RegisterChainKey including its reference update *)
Definition reg_step (W : nat) (Nr : N) (s : store) (d c : N) : store :=
  match get_chain s grp d with
  | Some _ => s
  | None => refs_update Nr (apply_muts s (register_muts W s grp d c (d, c) false)) grp d (c + N.of_nat W)
  end.

Inductive pop :=
| PReg (d c : N)
| PLog (d k cid : N)
| PPush (d k cid : N)
| PPushBad (d k cid : N)        (* altered payload box / unknown group reference: nothing opens *)
| PRefs (d first : N).          (* UpdateOutOfStoreGroupReferences called directly *)

Inductive pout := POk (payload : N) (already : bool) | PLogOk (payload : N) | PFail | PDone.

Definition pstep (W : nat) (Nr : N) (s : store) (o : pop) : store * pout :=
  match o with
  | PReg d c => (reg_step W Nr s d c, PDone)
  | PLog d k cid =>
    let '(r, s') := log_step Nr s (honest_env grp d d k cid) cid in
    (s', match r with ROk p => PLogOk p | RFail => PFail end)
  | PPush d k cid =>
    let '(r, s') := push_step Nr s (honest_env grp d d k cid) cid in
    (s', match r with Some (p, a) => POk p a | None => PFail end)
  | PPushBad _ _ _ => (s, PFail)
  | PRefs d first => (refs_update Nr s grp d first, PDone)
  end.

Fixpoint prun (W : nat) (Nr : N) (s : store) (ops : list pop) : list pout :=
  match ops with
  | [] => []
  | o :: ops' => let '(s', r) := pstep W Nr s o in r :: prun W Nr s' ops'
  end.

Definition pout_eqb (a b : pout) : bool :=
  match a, b with
  | POk p x, POk q y => (p =? q) && Bool.eqb x y
  | PLogOk p, PLogOk q => p =? q
  | PFail, PFail | PDone, PDone => true
  | _, _ => false
  end.
Fixpoint pouts_eqb (a b : list pout) : bool :=
  match a, b with
  | [], [] => true
  | x :: a', y :: b' => pout_eqb x y && pouts_eqb a' b'
  | _, _ => false
  end.

(* reference window queries observed on the real datastore: is the reference of counter k stored? *)
Inductive case :=
| CPush (W : nat) (Nr : N) (ops : list pop) (obs : list pout)
| CWindow (Nr first : N) (probes : list (N * bool)).

Definition check_case (c : case) : bool :=
  match c with
  | CPush W Nr ops obs => pouts_eqb (prun W Nr empty_store ops) obs
  | CWindow Nr first probes =>
    forallb (fun p => Bool.eqb (ref_known (refs_update Nr empty_store grp 1 first) grp 1 (fst p)) (snd p)) probes
  end.

Fixpoint mismatches_from (i : N) (cs : list case) : list N :=
  match cs with
  | [] => []
  | c :: cs' => if check_case c then mismatches_from (i + 1) cs' else i :: mismatches_from (i + 1) cs'
  end.
Definition mismatches := mismatches_from 0.
