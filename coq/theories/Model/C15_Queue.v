(* C15 — executable model of internal/queue/simple.go as a labelled transition system, one
   step per scheduling point of the instrumented code (lock / unlock / select), and of
   internal/queue/priority.go (container/heap over a slice).  Definitions only.

   SimpleQueue threads: one consumer calling WaitForItem [want] times (stops at the first
   cancelled wait), producers each calling Add for their items, an optional canceller.
   Go semantics used: a non-blocking send on a channel succeeds iff a receiver is parked in a
   select on it (direct hand-off) or the buffer has room; a select with a ready case never
   parks; when both cases are ready either may be taken (the model returns both successors).
   The lock word [mtx] also records what its holder is about to do, which makes mutual
   exclusion structural. *)
From Coq Require Import List NArith Bool.
Import ListNotations.
Open Scope N_scope.

Inductive lockst :=
| Free
| ByConsWait                  (* consumer holds it, queue was empty: pending Unlock, then select *)
| ByConsRet (r : option N)    (* consumer holds it, about to return r: pending (deferred) Unlock *)
| ByConsPop (r : option N)    (* consumer holds it inside Pop, about to return r (None: the queue was empty) *)
| ByProd (i : nat) (sent : bool).  (* producer i holds it; item pushed; pending select(send) / Unlock *)

Inductive cpc := CStart | CPopLock | CPopHold | CWantLock | CHolding | CSelect | CParked | CDone.

Record producer := { p_started : bool; p_items : list N }.

Record state := {
  mtx : lockst;
  q : list N;                  (* the list.List, front first *)
  tok : N;                     (* tokens buffered in the signal channel *)
  cancelled : bool;
  c_pc : cpc;
  c_prepop : nat;              (* Pop calls the consumer still makes BEFORE it starts waiting *)
  c_want : nat;                (* remaining WaitForItem calls *)
  c_got : list (option N);     (* results so far, newest first *)
  prods : list producer;
  canceller : option bool;     (* None: no canceller; Some false: not yet run *)
  pushed : list N;             (* ghost: every item pushed, in order *)
  popped : list N;             (* ghost: every item popped, in order *)
}.

Definition set_prod (i : nat) (p : producer) (l : list producer) : list producer :=
  firstn i l ++ match skipn i l with [] => [] | _ :: r => p :: r end.

(* thread ids: 0 consumer, 1+i producer i, 99 canceller *)
Definition tid_cancel : N := 99.

Definition upd (s : state) (m : lockst) (q' : list N) (tok' : N) (canc : bool) (pc : cpc) (want : nat)
           (got : list (option N)) (ps : list producer) (k : option bool) (pu po : list N) : state :=
  {| mtx := m; q := q'; tok := tok'; cancelled := canc; c_pc := pc; c_prepop := c_prepop s; c_want := want; c_got := got;
     prods := ps; canceller := k; pushed := pu; popped := po |}.

Definition set_prepop (n : nat) (s : state) : state :=
  {| mtx := mtx s; q := q s; tok := tok s; cancelled := cancelled s; c_pc := c_pc s; c_prepop := n; c_want := c_want s;
     c_got := c_got s; prods := prods s; canceller := canceller s; pushed := pushed s; popped := popped s |}.

(* where the consumer goes once its Pop calls are over *)
Definition after_pops (s : state) : cpc := match c_want s with O => CDone | _ => CWantLock end.

(* consumer steps; returns the list of possible successors (empty = not enabled) *)
Definition cstep (s : state) : list state :=
  match c_pc s with
  | CStart =>
    [upd s (mtx s) (q s) (tok s) (cancelled s) (match c_prepop s with O => after_pops s | S _ => CPopLock end)
         (c_want s) (c_got s) (prods s) (canceller s) (pushed s) (popped s)]
  | CPopLock =>
    (* Pop: lock; take the front item if there is one; (deferred) unlock *)
    match mtx s with
    | Free =>
      match q s with
      | [] => [upd s (ByConsPop None) (q s) (tok s) (cancelled s) CPopHold (c_want s) (c_got s) (prods s) (canceller s) (pushed s) (popped s)]
      | x :: q' => [upd s (ByConsPop (Some x)) q' (tok s) (cancelled s) CPopHold (c_want s) (c_got s) (prods s) (canceller s) (pushed s) (popped s ++ [x])]
      end
    | _ => []
    end
  | CPopHold =>
    match mtx s with
    | ByConsPop r =>
      let n' := pred (c_prepop s) in
      [set_prepop n' (upd s Free (q s) (tok s) (cancelled s) (match n' with O => after_pops s | S _ => CPopLock end) (c_want s)
                          (match r with Some x => Some x :: c_got s | None => c_got s end)
                          (prods s) (canceller s) (pushed s) (popped s))]
    | _ => []
    end
  | CWantLock =>
    match mtx s with
    | Free =>
      if cancelled s then
        [upd s (ByConsRet None) (q s) (tok s) (cancelled s) CHolding (c_want s) (c_got s) (prods s) (canceller s) (pushed s) (popped s)]
      else match q s with
           | [] => [upd s ByConsWait (q s) (tok s) (cancelled s) CHolding (c_want s) (c_got s) (prods s) (canceller s) (pushed s) (popped s)]
           | x :: q' => [upd s (ByConsRet (Some x)) q' (tok s) (cancelled s) CHolding (c_want s) (c_got s) (prods s) (canceller s) (pushed s) (popped s ++ [x])]
           end
    | _ => []
    end
  | CHolding =>
    match mtx s with
    | ByConsWait => [upd s Free (q s) (tok s) (cancelled s) CSelect (c_want s) (c_got s) (prods s) (canceller s) (pushed s) (popped s)]
    | ByConsRet r =>
      let want' := pred (c_want s) in
      let pc' := match r, want' with
                 | None, _ => CDone
                 | Some _, O => CDone
                 | Some _, _ => CWantLock
                 end in
      [upd s Free (q s) (tok s) (cancelled s) pc' want' (r :: c_got s) (prods s) (canceller s) (pushed s) (popped s)]
    | _ => []
    end
  | CSelect =>
    let by_tok := upd s (mtx s) (q s) (tok s - 1) (cancelled s) CWantLock (c_want s) (c_got s) (prods s) (canceller s) (pushed s) (popped s) in
    let by_ctx := upd s (mtx s) (q s) (tok s) (cancelled s) CWantLock (c_want s) (c_got s) (prods s) (canceller s) (pushed s) (popped s) in
    if 0 <? tok s then (if cancelled s then [by_tok; by_ctx] else [by_tok])
    else if cancelled s then [by_ctx]
    else [upd s (mtx s) (q s) (tok s) (cancelled s) CParked (c_want s) (c_got s) (prods s) (canceller s) (pushed s) (popped s)]
  | CParked => []
  | CDone => []
  end.

Definition pstep (cap : N) (s : state) (i : nat) : list state :=
  match nth_error (prods s) i with
  | None => []
  | Some p =>
    match mtx s with
    | ByProd j sent =>
      if Nat.eqb i j then
        if sent then
          (* Unlock; next item or done *)
          [upd s Free (q s) (tok s) (cancelled s) (c_pc s) (c_want s) (c_got s)
               (set_prod i {| p_started := true; p_items := tl (p_items p) |} (prods s)) (canceller s) (pushed s) (popped s)]
        else
          (* select { case signal <- {}: default: } *)
          (if match c_pc s with CParked => true | _ => false end
           then [upd s (ByProd i true) (q s) (tok s) (cancelled s) CWantLock (c_want s) (c_got s) (prods s) (canceller s) (pushed s) (popped s)]
           else [upd s (ByProd i true) (q s) (if tok s <? cap then tok s + 1 else tok s) (cancelled s) (c_pc s) (c_want s) (c_got s) (prods s) (canceller s) (pushed s) (popped s)])
      else if p_started p then []
      else [upd s (mtx s) (q s) (tok s) (cancelled s) (c_pc s) (c_want s) (c_got s)
                (set_prod i {| p_started := true; p_items := p_items p |} (prods s)) (canceller s) (pushed s) (popped s)]
    | Free =>
      if p_started p then
        match p_items p with
        | [] => []
        | x :: _ => [upd s (ByProd i false) (q s ++ [x]) (tok s) (cancelled s) (c_pc s) (c_want s) (c_got s) (prods s) (canceller s) (pushed s ++ [x]) (popped s)]
        end
      else [upd s (mtx s) (q s) (tok s) (cancelled s) (c_pc s) (c_want s) (c_got s)
                (set_prod i {| p_started := true; p_items := p_items p |} (prods s)) (canceller s) (pushed s) (popped s)]
    | _ =>
      if p_started p then []
      else [upd s (mtx s) (q s) (tok s) (cancelled s) (c_pc s) (c_want s) (c_got s)
                (set_prod i {| p_started := true; p_items := p_items p |} (prods s)) (canceller s) (pushed s) (popped s)]
    end
  end.

Definition kstep (s : state) : list state :=
  match canceller s with
  | Some false =>
    [upd s (mtx s) (q s) (tok s) true (match c_pc s with CParked => CWantLock | pc => pc end)
         (c_want s) (c_got s) (prods s) (Some true) (pushed s) (popped s)]
  | _ => []
  end.

Definition step (cap : N) (s : state) (tid : N) : list state :=
  if tid =? 0 then cstep s
  else if tid =? tid_cancel then kstep s
  else pstep cap s (N.to_nat tid - 1).

Definition init_pop (prepop : nat) (items : list (list N)) (want : nat) (with_cancel : bool) : state :=
  {| mtx := Free; q := []; tok := 0; cancelled := false; c_pc := CStart; c_prepop := prepop; c_want := want; c_got := [];
     prods := map (fun l => {| p_started := false; p_items := l |}) items;
     canceller := if with_cancel then Some false else None; pushed := []; popped := [] |}.
Definition init (items : list (list N)) (want : nat) (with_cancel : bool) : state := init_pop 0 items want with_cancel.

(* ---------- observables ---------- *)

(* status codes: 0 at start, 1 at lock (enabled), 5 at lock (mutex held), 2 at unlock,
   3 at select, 7 blocked in the runtime, 8 done *)
Definition cstatus (s : state) : N :=
  match c_pc s with
  | CStart => 0
  | CPopLock => match mtx s with Free => 1 | _ => 5 end
  | CPopHold => 2
  | CWantLock => match mtx s with Free => 1 | _ => 5 end
  | CHolding => 2
  | CSelect => 3
  | CParked => 7
  | CDone => 8
  end.

Definition pstatus (s : state) (i : nat) (p : producer) : N :=
  match mtx s with
  | ByProd j sent => if Nat.eqb i j then (if sent then 2 else 3)
                     else if negb (p_started p) then 0 else match p_items p with [] => 8 | _ => 5 end
  | Free => if negb (p_started p) then 0 else match p_items p with [] => 8 | _ => 1 end
  | _ => if negb (p_started p) then 0 else match p_items p with [] => 8 | _ => 5 end
  end.

Fixpoint pstatuses (s : state) (i : nat) (ps : list producer) : list N :=
  match ps with [] => [] | p :: ps' => pstatus s i p :: pstatuses s (S i) ps' end.

Definition kstatus (s : state) : list N :=
  match canceller s with None => [] | Some false => [0] | Some true => [8] end.

Definition statuses (s : state) : list N := cstatus s :: pstatuses s 0 (prods s) ++ kstatus s.

(* run a schedule on a set of possible states; after each step keep the successors whose
   status vector equals the observed one *)
Fixpoint list_eqb (a b : list N) : bool :=
  match a, b with
  | [], [] => true
  | x :: a', y :: b' => (x =? y) && list_eqb a' b'
  | _, _ => false
  end.

Fixpoint follow (cap : N) (ss : list state) (sched : list N) (obs : list (list N)) : list state :=
  match sched, obs with
  | [], [] => ss
  | t :: sched', o :: obs' =>
    let next := flat_map (fun s => step cap s t) ss in
    follow cap (filter (fun s => list_eqb (statuses s) o) next) sched' obs'
  | _, _ => []
  end.

Definition opt_eqb (a b : option N) : bool :=
  match a, b with None, None => true | Some x, Some y => x =? y | _, _ => false end.
Fixpoint opts_eqb (a b : list (option N)) : bool :=
  match a, b with
  | [], [] => true
  | x :: a', y :: b' => opt_eqb x y && opts_eqb a' b'
  | _, _ => false
  end.

(* ---------- PriorityQueue: container/heap on a list ---------- *)

Definition swap (l : list N) (i j : nat) : list N :=
  match nth_error l i, nth_error l j with
  | Some a, Some b =>
    map (fun kx => if Nat.eqb (fst kx) i then b else if Nat.eqb (fst kx) j then a else snd kx)
        (combine (seq 0 (length l)) l)
  | _, _ => l
  end.

Definition lessb (l : list N) (i j : nat) : bool :=
  match nth_error l i, nth_error l j with Some a, Some b => a <? b | _, _ => false end.

(* heap.up *)
Fixpoint up (fuel : nat) (l : list N) (j : nat) : list N :=
  match fuel with
  | O => l
  | S f =>
    match j with
    | O => l
    | _ => let i := Nat.div (j - 1) 2 in
           if lessb l j i then up f (swap l i j) i else l
    end
  end.

(* heap.down on the first n elements *)
Fixpoint down (fuel : nat) (l : list N) (i n : nat) : list N :=
  match fuel with
  | O => l
  | S f =>
    let j1 := (2 * i + 1)%nat in
    if Nat.leb n j1 then l
    else
      let j2 := (j1 + 1)%nat in
      let j := if Nat.ltb j2 n && lessb l j2 j1 then j2 else j1 in
      if lessb l j i then down f (swap l i j) j n else l
  end.

Definition heap_push (l : list N) (x : N) : list N :=
  let l' := l ++ [x] in up (length l') l' (length l).

Definition heap_pop (l : list N) : option (N * list N) :=
  match l with
  | [] => None
  | _ =>
    let n := (length l - 1)%nat in
    let l1 := swap l 0 n in
    let l2 := down (length l) l1 0 n in
    match nth_error l2 n with
    | Some x => Some (x, firstn n l2)
    | None => None
    end
  end.

Inductive pqop := PAdd (x : N) | PNext | PNextAll | PSize.
Inductive pqout := PNone | PItem (x : N) | PItems (xs : list N) | PLen (n : N).

Fixpoint pop_all (fuel : nat) (l : list N) : list N :=
  match fuel with
  | O => []
  | S f => match heap_pop l with None => [] | Some (x, l') => x :: pop_all f l' end
  end.

Definition pqstep (l : list N) (o : pqop) : list N * pqout :=
  match o with
  | PAdd x => (heap_push l x, PNone)
  | PNext => match heap_pop l with None => (l, PItem 0) | Some (x, l') => (l', PItem x) end
  | PNextAll => ([], PItems (pop_all (length l) l))
  | PSize => (l, PLen (N.of_nat (length l)))
  end.

(* ---- several tasks on ONE priority queue ----
   Every exported method of PriorityQueue is one critical section of the queue's mutex from its first
   to its last statement - NextAll included, whose callbacks run under the lock (generated skeletons of
   priority.go) - so with several tasks, each performing its own list of operations, a schedule decides
   only WHICH task performs its next operation.  [pq_conc] runs a schedule and keeps what was added,
   what was handed out (in order, per operation) and the queue. *)
Definition handed_by (l : list N) (o : pqop) : list N :=
  match o with
  | PNext => match heap_pop l with Some (x, _) => [x] | None => [] end
  | PNextAll => pop_all (length l) l
  | _ => []
  end.
Definition added_by (o : pqop) : list N := match o with PAdd x => [x] | _ => [] end.

Fixpoint set_prog (t : nat) (p : list pqop) (progs : list (list pqop)) : list (list pqop) :=
  match progs, t with
  | [], _ => []
  | _ :: ps, O => p :: ps
  | q :: ps, S t' => q :: set_prog t' p ps
  end.

Record pqconc := mkPQ { pq_items : list N; pq_added : list N; pq_handed : list (list N) }.

Fixpoint pq_conc (st : pqconc) (progs : list (list pqop)) (sched : list nat) : pqconc :=
  match sched with
  | [] => st
  | t :: sched' =>
      match nth_error progs t with
      | Some (o :: rest) =>
          let l := pq_items st in
          pq_conc (mkPQ (fst (pqstep l o)) (pq_added st ++ added_by o)
                        (match o with PNext | PNextAll => pq_handed st ++ [handed_by l o] | _ => pq_handed st end))
                  (set_prog t rest progs) sched'
      | _ => pq_conc st progs sched'
      end
  end.

Fixpoint pqrun (l : list N) (ops : list pqop) : list pqout :=
  match ops with [] => [] | o :: ops' => let '(l', r) := pqstep l o in r :: pqrun l' ops' end.

Definition pqout_eqb (a b : pqout) : bool :=
  match a, b with
  | PNone, PNone => true
  | PItem x, PItem y => x =? y
  | PItems x, PItems y => list_eqb x y
  | PLen x, PLen y => x =? y
  | _, _ => false
  end.
Fixpoint pqouts_eqb (a b : list pqout) : bool :=
  match a, b with
  | [], [] => true
  | x :: a', y :: b' => pqout_eqb x y && pqouts_eqb a' b'
  | _, _ => false
  end.

(* ---------- correspondence cases ---------- *)

Inductive case :=
| CSched (cap : N) (items : list (list N)) (want : nat) (with_cancel : bool)
         (sched : list N) (obs : list (list N)) (final_got : list (option N)) (final_q : list N)
(* the same with a consumer that first calls Pop [prepop] times (non-blocking) and then waits *)
| CSchedPop (cap : N) (prepop : nat) (items : list (list N)) (want : nat) (with_cancel : bool)
         (sched : list N) (obs : list (list N)) (final_got : list (option N)) (final_q : list N)
| CPrio (ops : list pqop) (obs : list pqout)
(* several tasks on one priority queue: what was queued first, the tasks' operations, the order in which
   the tasks passed the queue's lock, what each Next / NextAll that handed something out handed out (in
   that order), and what was left in the end (taken with Next) *)
| CPrioConc (initial : list N) (progs : list (list pqop)) (lock_order : list nat)
            (handed : list (list N)) (remaining : list N).

Fixpoint lists_eqb (a b : list (list N)) : bool :=
  match a, b with
  | [], [] => true
  | x :: a', y :: b' => list_eqb x y && lists_eqb a' b'
  | _, _ => false
  end.

Definition check_case (c : case) : bool :=
  match c with
  | CSched cap items want wc sched obs got fq =>
    let s0 := init items want wc in
    existsb (fun s => opts_eqb (rev (c_got s)) got && list_eqb (q s) fq) (follow cap [s0] sched obs)
  | CSchedPop cap pp items want wc sched obs got fq =>
    let s0 := init_pop pp items want wc in
    existsb (fun s => opts_eqb (rev (c_got s)) got && list_eqb (q s) fq) (follow cap [s0] sched obs)
  | CPrio ops obs => pqouts_eqb (pqrun [] ops) obs
  | CPrioConc initial progs lin handed remaining =>
    let st := pq_conc (mkPQ (fold_left heap_push initial []) [] []) progs lin in
    lists_eqb (filter (fun h => negb (Nat.eqb (length h) 0)) (pq_handed st)) handed &&
    list_eqb (pop_all (length (pq_items st)) (pq_items st)) remaining
  end.

Fixpoint mismatches_from (i : N) (cs : list case) : list N :=
  match cs with
  | [] => []
  | c :: cs' => if check_case c then mismatches_from (i + 1) cs' else i :: mismatches_from (i + 1) cs'
  end.
Definition mismatches := mismatches_from 0.
