(* C12 — multi-member group invitations (pkg/protocoltypes/group.go IsValid, store_metadata.go
   GroupJoin), the keys an account uses in a group (device_keystore_wrapper.go
   memberDeviceForGroup) and replication descriptors (api_replication.go
   FilterGroupForReplication, group.go ComputeLinkKey, store_options.go defaultACForGroup),
   symbolically.  Definitions only.  Signatures as in Model.C03_Events. *)
From Coq Require Import List NArith Bool.
From Wesh Require Import Model.C03_Events.
Import ListNotations.
Open Scope N_scope.

Inductive gtype := GUndefined | GAccount | GContact | GMulti | GOther (n : N).

(* a Group message as handed to GroupJoin.  Secrets and keys are identifiers; 0 = field absent. *)
Record group := mkGroup {
  gr_pk : keyfield;        (* PublicKey: a 32-byte key, or absent/invalid *)
  gr_secret : N;           (* Secret (the seed of the signing key; also the shared secret) *)
  gr_sig : sigterm;        (* SecretSig *)
  gr_type : gtype;
  gr_signpub : N;          (* SignPub, 0 when absent *)
  gr_linkkey : N           (* LinkKey, 0 when absent *)
}.

(* Group.IsValid *)
Definition is_valid (g : group) : bool :=
  match gr_pk g with KeyOk k => verify k (gr_sig g) (gr_secret g) | KeyBad => false end.

Definition is_multi (t : gtype) : bool := match t with GMulti => true | _ => false end.

(* MetadataStore.GroupJoin on the account group: the joined set, and the events appended *)
Record acct := mkAcct { joined : list N; appended : list N }.   (* group key identifiers *)

Definition group_key (g : group) : N := match gr_pk g with KeyOk k => k | KeyBad => 0 end.

Definition in_list (k : N) (l : list N) : bool := existsb (N.eqb k) l.

Definition group_join (a : acct) (g : group) : acct * bool :=
  if is_multi (gr_type g) && is_valid g && negb (in_list (group_key g) (joined a))
  then (mkAcct (group_key g :: joined a) (appended a ++ [group_key g]), true)
  else (a, false).

(* the pinned behaviour before the repair: the group type was not looked at *)
Definition group_join_untyped (a : acct) (g : group) : acct * bool :=
  if is_valid g && negb (in_list (group_key g) (joined a))
  then (mkAcct (group_key g :: joined a) (appended a ++ [group_key g]), true)
  else (a, false).

(* ---- which identity an account shows in a group (memberDeviceForGroup) ---- *)
Inductive identity :=
| IdAccount                      (* the account key itself *)
| IdDerived (proof gk : N)       (* key derived from the account proof key and the group key (C11) *)
| IdNone.

Definition member_identity (proof : N) (g : group) : identity :=
  match gr_type g with
  | GAccount | GContact => IdAccount
  | GMulti => match gr_pk g with KeyOk k => IdDerived proof k | KeyBad => IdNone end
  | _ => IdNone
  end.

(* ---- replication descriptor ---- *)
(* one-way functions of the symbolic model: constructors that nothing inverts *)
Inductive term := TSecret (s : N) | TPubOfSeed (s : N) | TLinkKey (pk s : N) | TGiven (x : N) | TNone.

Record descriptor := mkDesc { d_pk : keyfield; d_secret : term; d_signpub : term; d_linkkey : term }.

Definition signing_pub (g : group) : term :=
  if gr_signpub g =? 0 then TPubOfSeed (gr_secret g) else TGiven (gr_signpub g).
Definition link_key (g : group) : term :=
  if gr_linkkey g =? 0 then TLinkKey (group_key g) (gr_secret g) else TGiven (gr_linkkey g).

(* FilterGroupForReplication *)
Definition filter_group (g : group) : descriptor :=
  mkDesc (gr_pk g) TNone (signing_pub g) (link_key g).

(* what a holder of the descriptor can use as box key: GetSharedSecret of a Group without Secret
   is the all-zero key, identifier 0 *)
Definition desc_shared_secret (d : descriptor) : N :=
  match d_secret d with TSecret s => s | _ => 0 end.

(* log address: defaultACForGroup — write key (signing public key), group id, store type *)
Definition log_address_group (g : group) (store : N) : term * keyfield * N := (signing_pub g, gr_pk g, store).
Definition log_address_desc (d : descriptor) (store : N) : term * keyfield * N := (d_signpub d, d_pk d, store).

(* ---- correspondence cases ---- *)
Definition gtype_eqb (a b : gtype) : bool :=
  match a, b with
  | GUndefined, GUndefined | GAccount, GAccount | GContact, GContact | GMulti, GMulti => true
  | GOther x, GOther y => x =? y
  | _, _ => false
  end.

Definition term_eqb (a b : term) : bool :=
  match a, b with
  | TSecret x, TSecret y | TPubOfSeed x, TPubOfSeed y | TGiven x, TGiven y => x =? y
  | TLinkKey p x, TLinkKey q y => (p =? q) && (x =? y)
  | TNone, TNone => true
  | _, _ => false
  end.
Definition keyfield_eqb (a b : keyfield) : bool :=
  match a, b with KeyOk x, KeyOk y => x =? y | KeyBad, KeyBad => true | _, _ => false end.
Definition addr_eqb (a b : term * keyfield * N) : bool :=
  let '(t1, k1, s1) := a in let '(t2, k2, s2) := b in term_eqb t1 t2 && keyfield_eqb k1 k2 && (s1 =? s2).

Inductive case :=
| CJoin (already : bool) (g : group) (accepted : bool) (appended_events : N)
| CIdentity (g : group) (uses_account_key : bool)
| CDesc (g : group) (secret_absent opens_metadata opens_headers same_addresses same_linkkey : bool).

Definition case_ok (c : case) : bool :=
  match c with
  | CJoin already g acc n =>
      let a := mkAcct (if already then [group_key g] else []) [] in
      let '(a', r) := group_join a g in
      Bool.eqb r acc && (N.of_nat (length (appended a')) =? n)
  | CIdentity g acct_key =>
      Bool.eqb (match member_identity 1 g with IdAccount => true | _ => false end) acct_key
  | CDesc g absent om oh addr lk =>
      let d := filter_group g in
      Bool.eqb (match d_secret d with TNone => true | _ => false end) absent &&
      (* envelopes of the group are sealed under its secret: they open under the descriptor only if
         the descriptor's shared secret is that secret *)
      Bool.eqb (desc_shared_secret d =? gr_secret g) om &&
      Bool.eqb (desc_shared_secret d =? gr_secret g) oh &&
      Bool.eqb (addr_eqb (log_address_desc d 1) (log_address_group g 1) && addr_eqb (log_address_desc d 2) (log_address_group g 2)) addr &&
      Bool.eqb (term_eqb (d_linkkey d) (link_key g)) lk
  end.

Fixpoint mismatches_from (i : N) (cs : list case) : list N :=
  match cs with
  | [] => []
  | c :: cs' => if case_ok c then mismatches_from (i + 1) cs' else i :: mismatches_from (i + 1) cs'
  end.
Definition mismatches (cs : list case) : list N := mismatches_from 0 cs.

(* ---- the group registry of the secret store (PutGroup / FetchGroupByPublicKey): the first group
   written for an identifier stays ---- *)
Definition registry := list (N * group).
Fixpoint reg_find (k : N) (r : registry) : option group :=
  match r with [] => None | (k', g) :: r' => if k =? k' then Some g else reg_find k r' end.
Definition put_group (r : registry) (k : N) (g : group) : registry :=
  match reg_find k r with Some _ => r | None => r ++ [(k, g)] end.

(* MultiMemberGroupJoin as the source has it (check, store nothing; the group reaches the registry
   later, from the account log) and as seeded (store first) *)
Definition service_join (a : acct) (r : registry) (k : N) (g : group) : acct * registry * bool :=
  let '(a', ok) := group_join a g in (a', if ok then put_group r k g else r, ok).
Definition service_join_store_first (a : acct) (r : registry) (k : N) (g : group) : acct * registry * bool :=
  let '(a', ok) := group_join a g in (a', put_group r k g, ok).
