(* C17 — executable model of pkg/rendezvous (rendezvous.go, rotation.go): period arithmetic,
   symbolic rendezvous points, and the RotationInterval cache machine with explicit time.
   Definitions only.

   Times are Z: [now] in nanoseconds, periods/deadlines in whole seconds (time.Unix(sec,0)).
   GenerateRendezvousPointForPeriod(topic, seed, date) = HMAC-SHA256(key = topic ++ seed,
   be64(date.Unix())) is symbolic: the pair (topic ++ seed, period start) — HMAC assumed
   injective in (key, message); the key really is a plain concatenation, which the model keeps.
   The comparison operator of Point.IsExpired is a parameter, bound by the generated fact
   Gen/Rotation.v to what the source says now. *)
From Coq Require Import List ZArith Bool.
Import ListNotations.
Open Scope Z_scope.

Definition bytes := list Z.

Fixpoint bytes_eqb (a b : bytes) : bool :=
  match a, b with
  | [], [] => true
  | x :: a', y :: b' => (x =? y) && bytes_eqb a' b'
  | _, _ => false
  end.

(* ---------- rendezvous.go ---------- *)

(* RoundTimePeriod on Unix seconds; Go's integer division truncates toward zero *)
Definition round_period (sec interval : Z) : Z := Z.quot sec interval * interval.
Definition next_period (sec interval : Z) : Z := round_period sec interval + interval.

Definition rotkey := (bytes * Z)%type.     (* HMAC key, message (period start) *)
Definition gen_point (topic seed : bytes) (sec : Z) : rotkey := (topic ++ seed, sec).

Definition rotkey_eqb (a b : rotkey) : bool := bytes_eqb (fst a) (fst b) && (snd a =? snd b).

(* ---------- rotation.go ---------- *)

Inductive cmp := CmpGt | CmpGe | CmpLt | CmpLe | CmpEq | CmpNe.
Definition cmp0 (op : cmp) (x : Z) : bool :=
  match op with
  | CmpGt => 0 <? x | CmpGe => 0 <=? x | CmpLt => x <? 0 | CmpLe => x <=? 0
  | CmpEq => x =? 0 | CmpNe => negb (x =? 0)
  end.

Record point := { p_topic : bytes; p_seed : bytes; p_period : Z; p_deadline : Z }.

Definition p_rot (p : point) : rotkey := gen_point (p_topic p) (p_seed p) (p_period p).

Definition ns : Z := 1000000000.
Definition unix (now : Z) : Z := now / ns.         (* time.Time.Unix() for now >= 0 *)

Record rstate := {
  r_interval : Z;                          (* seconds *)
  r_topics : list (bytes * point);          (* cacheTopics *)
  r_rots : list (rotkey * point);           (* cacheRotations *)
  r_timers : list (Z * rotkey);             (* pending time.AfterFunc clean-ups: fire time (ns), key *)
}.

Definition init_rstate (interval : Z) : rstate :=
  {| r_interval := interval; r_topics := []; r_rots := []; r_timers := [] |}.

Fixpoint lookup_topic (t : bytes) (l : list (bytes * point)) : option point :=
  match l with [] => None | (k, p) :: l' => if bytes_eqb k t then Some p else lookup_topic t l' end.
Fixpoint lookup_rot (r : rotkey) (l : list (rotkey * point)) : option point :=
  match l with [] => None | (k, p) :: l' => if rotkey_eqb k r then Some p else lookup_rot r l' end.
Fixpoint remove_rot (r : rotkey) (l : list (rotkey * point)) : list (rotkey * point) :=
  match l with [] => [] | (k, p) :: l' => if rotkey_eqb k r then remove_rot r l' else (k, p) :: remove_rot r l' end.

(* map assignment: newest binding first *)
Definition register_point (st : rstate) (p : point) : rstate :=
  {| r_interval := r_interval st;
     r_topics := (p_topic p, p) :: r_topics st;
     r_rots := (p_rot p, p) :: r_rots st;
     r_timers := r_timers st |}.

(* NewRendezvousPointForPeriod(at) *)
Definition new_point (st : rstate) (at_sec : Z) (topic seed : bytes) : point :=
  let per := round_period at_sec (r_interval st) in
  {| p_topic := topic; p_seed := seed; p_period := per;
     p_deadline := next_period per (r_interval st) |}.

Definition ttl (p : point) (now : Z) : Z := p_deadline p * ns - now.
Definition is_expired (op : cmp) (p : point) (now : Z) : bool := cmp0 op (ttl p now).

Definition grace_ns : Z := 86400 * ns.     (* rotate(point, DefaultRotationInterval) *)

(* Point.NextPoint + RotationInterval.rotate *)
Definition rotate (op : cmp) (st : rstate) (now : Z) (old : point) : rstate * point :=
  let np := if is_expired op old now
            then new_point st (unix now) (p_topic old) (p_seed old)
            else new_point st (p_deadline old + 1) (p_topic old) (p_seed old) in
  let st1 := register_point st np in
  let delay := Z.max (p_deadline np * ns + grace_ns - now) 0 in
  ({| r_interval := r_interval st1; r_topics := r_topics st1; r_rots := r_rots st1;
      r_timers := r_timers st1 ++ [(now + delay, p_rot old)] |}, np).

Definition point_for_topic (op : cmp) (st : rstate) (now : Z) (t : bytes) : rstate * option point :=
  match lookup_topic t (r_topics st) with
  | None => (st, None)
  | Some p => if is_expired op p now then let '(st', np) := rotate op st now p in (st', Some np)
              else (st, Some p)
  end.

Definition point_for_rotation (op : cmp) (st : rstate) (now : Z) (r : rotkey) : rstate * option point :=
  match lookup_rot r (r_rots st) with
  | None => (st, None)
  | Some p => if is_expired op p now then let '(st', np) := rotate op st now p in (st', Some np)
              else (st, Some p)
  end.

(* timers whose time has come run (in order of creation among those due) *)
Definition fire (st : rstate) (now : Z) : rstate :=
  let due := filter (fun t => fst t <=? now) (r_timers st) in
  let keep := filter (fun t => negb (fst t <=? now)) (r_timers st) in
  {| r_interval := r_interval st; r_topics := r_topics st;
     r_rots := fold_left (fun l t => remove_rot (snd t) l) due (r_rots st);
     r_timers := keep |}.

(* ---------- histories over two peers sharing a clock ---------- *)

Inductive op :=
| ORegister (peer : bool) (topic seed : bytes)        (* RegisterRotation(now, topic, seed) *)
| OTopic (peer : bool) (topic : bytes)                (* PointForTopic *)
| ORot (peer : bool) (r : rotkey)                     (* PointForRawRotation of GenerateRendezvousPointForPeriod(...) *)
| OXchg (from : bool) (topic : bytes)                 (* from resolves topic, the other peer resolves that rotation value *)
| OAdvance (dt : Z).                                  (* clock += dt ns; due timers fire *)

(* observable: rotation value, deadline (unix s), topic *)
Definition obs := option (rotkey * Z * bytes).
Definition obs_of (p : option point) : obs :=
  match p with None => None | Some p => Some (p_rot p, p_deadline p, p_topic p) end.

Record world := { w_now : Z; w_a : rstate; w_b : rstate }.

Definition get_peer (w : world) (b : bool) := if b then w_b w else w_a w.
Definition set_peer (w : world) (b : bool) (st : rstate) : world :=
  if b then {| w_now := w_now w; w_a := w_a w; w_b := st |}
  else {| w_now := w_now w; w_a := st; w_b := w_b w |}.

Definition wstep (cop : cmp) (w : world) (o : op) : world * obs :=
  match o with
  | ORegister b t s =>
    let st := get_peer w b in
    (set_peer w b (register_point st (new_point st (unix (w_now w)) t s)), None)
  | OTopic b t =>
    let '(st', p) := point_for_topic cop (get_peer w b) (w_now w) t in (set_peer w b st', obs_of p)
  | ORot b r =>
    let '(st', p) := point_for_rotation cop (get_peer w b) (w_now w) r in (set_peer w b st', obs_of p)
  | OXchg b t =>
    let '(st', p) := point_for_topic cop (get_peer w b) (w_now w) t in
    let w1 := set_peer w b st' in
    match p with
    | None => (w1, None)
    | Some p =>
      let '(st2, q) := point_for_rotation cop (get_peer w1 (negb b)) (w_now w1) (p_rot p) in
      (set_peer w1 (negb b) st2, obs_of q)
    end
  | OAdvance dt =>
    let now' := w_now w + dt in
    ({| w_now := now'; w_a := fire (w_a w) now'; w_b := fire (w_b w) now' |}, None)
  end.

Fixpoint wrun (cop : cmp) (w : world) (ops : list op) : list obs :=
  match ops with
  | [] => []
  | o :: ops' => let '(w', r) := wstep cop w o in r :: wrun cop w' ops'
  end.

Definition init_world (now interval : Z) : world :=
  {| w_now := now; w_a := init_rstate interval; w_b := init_rstate interval |}.

(* ---------- correspondence ---------- *)

Definition obs_eqb (a b : obs) : bool :=
  match a, b with
  | None, None => true
  | Some (r1, d1, t1), Some (r2, d2, t2) => rotkey_eqb r1 r2 && (d1 =? d2) && bytes_eqb t1 t2
  | _, _ => false
  end.
Fixpoint obss_eqb (a b : list obs) : bool :=
  match a, b with
  | [], [] => true
  | x :: a', y :: b' => obs_eqb x y && obss_eqb a' b'
  | _, _ => false
  end.

Inductive case :=
| CRound (sec interval : Z) (obs_round obs_next : Z)          (* pure functions on Unix seconds *)
| CHist (cop : cmp) (now0 interval : Z) (ops : list op) (observed : list obs).

Definition check_case (c : case) : bool :=
  match c with
  | CRound s i r n => (round_period s i =? r) && (next_period s i =? n)
  | CHist cop now0 i ops o => obss_eqb (wrun cop (init_world now0 i) ops) o
  end.

Fixpoint mismatches_from (i : N) (cs : list case) : list N :=
  match cs with
  | [] => []
  | c :: cs' => if check_case c then mismatches_from (i + 1) cs' else (i :: mismatches_from (i + 1) cs')%list
  end.
Definition mismatches := mismatches_from 0%N.
