(* C04 — correspondence cases for the derived group state (the model itself is Model.MetaLog).
   A case is what one replica went through: the successive contents of its log at each
   UpdateIndex (entries in the order they sit in the replica's entry map), the keys queried and
   what the MetadataStore getters reported after the last one. *)
From Coq Require Import List NArith Bool.
From Wesh Require Import Model.MetaLog Model.C04_Alias.
Import ListNotations.
Open Scope N_scope.

Definition oN_eqb (a b : option N) : bool :=
  match a, b with Some x, Some y => x =? y | None, None => true | _, _ => false end.
Definition ob_eqb (a b : option bool) : bool :=
  match a, b with Some x, Some y => Bool.eqb x y | None, None => true | _, _ => false end.

Fixpoint list_eqb {A} (f : A -> A -> bool) (a b : list A) : bool :=
  match a, b with
  | [], [] => true
  | x :: a', y :: b' => f x y && list_eqb f a' b'
  | _, _ => false
  end.

Definition crec_obs_eqb (a b : option (N * N * N * option N)) : bool :=
  match a, b with
  | Some (st, m, sd, ow), Some (st', m', sd', ow') => (st =? st') && (m =? m') && (sd =? sd') && oN_eqb ow ow'
  | None, None => true
  | _, _ => false
  end.

Definition obs_eqb (a b : obs) : bool :=
  list_eqb (fun x y => (fst x =? fst y) && crec_obs_eqb (snd x) (snd y)) (o_contacts a) (o_contacts b) &&
  Bool.eqb (o_enabled a) (o_enabled b) &&
  (o_seed a =? o_seed b) &&
  list_eqb (fun x y => (fst x =? fst y) && ob_eqb (snd x) (snd y)) (o_groups a) (o_groups b) &&
  list_eqb (fun x y => (fst x =? fst y) && oN_eqb (snd x) (snd y)) (o_devs a) (o_devs b) &&
  list_eqb (fun x y => (fst x =? fst y) && Bool.eqb (snd x) (snd y)) (o_sent a) (o_sent b) &&
  list_eqb (fun x y => (fst x =? fst y) && (snd x =? snd y)) (o_admins a) (o_admins b) &&
  list_eqb N.eqb (o_creds a) (o_creds b).

Inductive case :=
| CIdx (own : N) (logs : list (list entry)) (pks groups devs members : list N) (observed : obs)
(* the alias keys of a contact group: own device, own member, the successive logs, ownAliasKeySent, otherAliasKey *)
| CAlias (own ownm : N) (logs : list (list entry)) (sent : bool) (other : option N).

Definition case_ok (c : case) : bool :=
  match c with
  | CIdx own logs pks groups devs members observed =>
      obs_eqb (observe (fold_left (update_index own) logs ginit) pks groups devs members) observed
  | CAlias own ownm logs sent other =>
      let a := snd (fold_left (update_full own ownm) logs full_init) in
      Bool.eqb (a_sent a) sent && oN_eqb (a_other a) other
  end.

Fixpoint mismatches_from (i : N) (cs : list case) : list N :=
  match cs with
  | [] => []
  | c :: cs' => if case_ok c then mismatches_from (i + 1) cs' else i :: mismatches_from (i + 1) cs'
  end.
Definition mismatches (cs : list case) : list N := mismatches_from 0 cs.
