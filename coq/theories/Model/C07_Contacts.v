(* C07 — the seven contact operations of MetadataStore (store_metadata.go) over the metadata log
   of the account group, and the reference lifecycle of DESIGN.md appendix A.  Definitions only.

   The implementation side: an operation reads the contact's state from the index of the current
   log (the state derived by Model.MetaLog), runs its guard, and appends at most one event.
   The reference side: a per-contact record moved by the transition table, knowing nothing of
   logs, events or indexes. *)
From Coq Require Import List NArith Bool.
From Wesh Require Import Model.MetaLog.
Import ListNotations.
Open Scope N_scope.

(* a shareable contact as handed to Enqueue / IncomingReceived *)
Inductive pkform := PkOk (n : N) | PkMissing | PkBad.        (* PkBad: bytes that are no Ed25519 key *)
Inductive seedform := SdOk (n : N) | SdMissing | SdShort.    (* SdShort: present, length <> 32 *)
Record contact_in := mkCI { ci_pk : pkform; ci_seed : seedform; ci_meta : N }.

(* pkg/protocoltypes/contact.go: CheckFormat *)
Definition check_format (allow_missing_seed : bool) (c : contact_in) : option N :=
  match ci_seed c with
  | SdShort => None
  | SdMissing => if allow_missing_seed then match ci_pk c with PkOk n => Some n | _ => None end else None
  | SdOk _ => match ci_pk c with PkOk n => Some n | _ => None end
  end.

Definition seed_id (s : seedform) : N := match s with SdOk n => n | _ => 0 end.

Inductive cop :=
| OEnq (c : contact_in) (own : N)
| OSent (pk : N)
| ORecv (c : contact_in)
| ODisc (pk : N)
| OAcc (pk : N)
| OBlock (pk : N)
| OUnblock (pk : N).

(* ---------- implementation side ---------- *)

Definition state_in (s : gstate) (pk : N) : cstate :=
  match g_contact s pk with Some c => c_state c | None => CUndef end.

(* ContactRequestOutgoingSent *)
Definition sent_guard (st : cstate) (pk : N) : option ev :=
  match st with
  | CToRequest | CReceived | CRemoved | CDiscarded => Some (ESent pk)
  | _ => None
  end.

(* the event an operation appends in index state [s] ([self]: the account's own key), or None
   when it is refused *)
Definition op_event (self : N) (s : gstate) (o : cop) : option ev :=
  match o with
  | OEnq c own =>
      match check_format false c with
      | None => None
      | Some pk =>
          if pk =? self then None
          else match state_in s pk with
               | CAdded => None
               | CRemoved | CDiscarded | CReceived => sent_guard (state_in s pk) pk
               | _ => Some (EEnq pk (ci_meta c) (seed_id (ci_seed c)) own)
               end
      end
  | OSent pk => sent_guard (state_in s pk) pk
  | ORecv c =>
      match check_format true c with
      | None => None
      | Some pk =>
          if pk =? self then None
          else match state_in s pk with
               | CUndef | CRemoved | CDiscarded => Some (ERecv pk (ci_meta c) (seed_id (ci_seed c)))
               | CToRequest => sent_guard (state_in s pk) pk
               | _ => None
               end
      end
  | ODisc pk => match state_in s pk with CReceived => Some (EDisc pk) | _ => None end
  | OAcc pk => match state_in s pk with CReceived => Some (EAcc pk) | _ => None end
  | OBlock pk =>
      if pk =? self then None
      else match state_in s pk with CBlocked => None | _ => Some (EBlock pk) end
  | OUnblock pk => match state_in s pk with CBlocked => Some (EUnblock pk) | _ => None end
  end.

(* the log is the list of events, oldest first; the device that performs the operations reads
   its index, which is the log applied in order (Proofs.MetaLog.index_is_apply) *)
Definition cstep (self own : N) (log : list ev) (o : cop) : list ev * bool :=
  match op_event self (apply_log own log) o with
  | Some e => (log ++ [e], true)
  | None => (log, false)
  end.

Fixpoint crun (self own : N) (log : list ev) (ops : list cop) : list ev * list bool :=
  match ops with
  | [] => (log, [])
  | o :: ops' =>
      let '(log1, r) := cstep self own log o in
      let '(log2, rs) := crun self own log1 ops' in (log2, r :: rs)
  end.

(* ---------- reference lifecycle (DESIGN.md, appendix A) ---------- *)

Inductive opkind := KEnq | KSent | KRecv | KDisc | KAcc | KBlock | KUnblock.

(* the transition table, row = current state, column = operation; None = refused *)
Definition table (st : cstate) (k : opkind) : option cstate :=
  match st, k with
  | CUndef, KEnq => Some CToRequest
  | CUndef, KRecv => Some CReceived
  | CUndef, KBlock => Some CBlocked
  | CUndef, _ => None
  | CToRequest, KEnq => Some CToRequest
  | CToRequest, KSent => Some CAdded
  | CToRequest, KRecv => Some CAdded
  | CToRequest, KBlock => Some CBlocked
  | CToRequest, _ => None
  | CReceived, KEnq => Some CAdded
  | CReceived, KSent => Some CAdded
  | CReceived, KDisc => Some CDiscarded
  | CReceived, KAcc => Some CAdded
  | CReceived, KBlock => Some CBlocked
  | CReceived, _ => None
  | CAdded, KBlock => Some CBlocked
  | CAdded, _ => None
  | CRemoved, KEnq => Some CAdded
  | CRemoved, KSent => Some CAdded
  | CRemoved, KRecv => Some CReceived
  | CRemoved, KBlock => Some CBlocked
  | CRemoved, _ => None
  | CDiscarded, KEnq => Some CAdded
  | CDiscarded, KSent => Some CAdded
  | CDiscarded, KRecv => Some CReceived
  | CDiscarded, KBlock => Some CBlocked
  | CDiscarded, _ => None
  | CBlocked, KEnq => Some CToRequest
  | CBlocked, KUnblock => Some CRemoved
  | CBlocked, _ => None
  end.

(* reference record of one contact: state, metadata and seed (0: none yet), own metadata of a
   pending outgoing request *)
Record rrec := mkR { r_state : cstate; r_meta : N; r_seed : N; r_own : option N }.
Definition rinit : rrec := mkR CUndef 0 0 None.

Definition ref := N -> rrec.
Definition ref_init : ref := fun _ => rinit.

(* which contact an operation is about and which column it is; None: malformed or own key *)
Definition op_target (self : N) (o : cop) : option (N * opkind) :=
  match o with
  | OEnq c _ => match check_format false c with
                | Some pk => if pk =? self then None else Some (pk, KEnq) | None => None end
  | ORecv c => match check_format true c with
               | Some pk => if pk =? self then None else Some (pk, KRecv) | None => None end
  | OSent pk => Some (pk, KSent)
  | ODisc pk => Some (pk, KDisc)
  | OAcc pk => Some (pk, KAcc)
  | OBlock pk => if pk =? self then None else Some (pk, KBlock)
  | OUnblock pk => Some (pk, KUnblock)
  end.

(* attributes: an operation that RECORDS a request (the cell keeps or enters ToRequest through
   Enqueue, or enters Received) brings the contact's metadata and seed where it has them and the
   own metadata of an enqueue; every other accepted operation keeps metadata and seed and drops
   the pending own metadata *)
Definition ref_attrs (r : rrec) (o : cop) (st' : cstate) : rrec :=
  match o, st' with
  | OEnq c own, CToRequest => mkR st' (nz (ci_meta c) (r_meta r)) (nz (seed_id (ci_seed c)) (r_seed r)) (Some own)
  | ORecv c, CReceived => mkR st' (nz (ci_meta c) (r_meta r)) (nz (seed_id (ci_seed c)) (r_seed r)) None
  | _, _ => mkR st' (r_meta r) (r_seed r) None
  end.

Definition ref_step (self : N) (r : ref) (o : cop) : ref * bool :=
  match op_target self o with
  | None => (r, false)
  | Some (pk, k) =>
      match table (r_state (r pk)) k with
      | None => (r, false)
      | Some st' => (upd r pk (ref_attrs (r pk) o st'), true)
      end
  end.

Fixpoint ref_run (self : N) (r : ref) (ops : list cop) : ref * list bool :=
  match ops with
  | [] => (r, [])
  | o :: ops' =>
      let '(r1, b) := ref_step self r o in
      let '(r2, bs) := ref_run self r1 ops' in (r2, b :: bs)
  end.

(* what the index of a log says about a contact, as a reference record *)
Definition abs (s : gstate) : ref :=
  fun pk => match g_contact s pk with
            | Some c => mkR (c_state c) (c_meta c) (c_seed c) (c_own c)
            | None => rinit
            end.

(* ---------- correspondence cases ---------- *)

(* observed contact: state code, metadata, seed, own metadata (None: no own metadata recorded) *)
Definition cobs := (N * (N * N * N * option N))%type.

Definition observe_contacts (s : gstate) (pks : list N) : list cobs :=
  map (fun pk => let r := abs s pk in (pk, (cstate_code (r_state r), r_meta r, r_seed r, r_own r))) pks.

Inductive case :=
| CSeq (self own : N) (ops : list cop) (results : list bool) (pks : list N) (writer : list cobs)
| CLife (self own : N) (ops : list cop) (results : list bool) (pks : list N)
        (writer replica reopened : list cobs).

Definition oN_eqb (a b : option N) : bool :=
  match a, b with Some x, Some y => x =? y | None, None => true | _, _ => false end.

Definition cobs_eqb (a b : cobs) : bool :=
  let '(p, (st, m, sd, ow)) := a in
  let '(p', (st', m', sd', ow')) := b in
  (p =? p') && (st =? st') && (m =? m') && (sd =? sd') && oN_eqb ow ow'.

Fixpoint list_eqb {A} (f : A -> A -> bool) (a b : list A) : bool :=
  match a, b with
  | [], [] => true
  | x :: a', y :: b' => f x y && list_eqb f a' b'
  | _, _ => false
  end.

Definition case_ok (c : case) : bool :=
  match c with
  | CSeq self own ops results pks w =>
      let '(log, rs) := crun self own [] ops in
      list_eqb Bool.eqb rs results && list_eqb cobs_eqb (observe_contacts (apply_log own log) pks) w
  | CLife self own ops results pks w rp ro =>
      let '(log, rs) := crun self own [] ops in
      let o := observe_contacts (apply_log own log) pks in
      list_eqb Bool.eqb rs results && list_eqb cobs_eqb o w && list_eqb cobs_eqb o rp && list_eqb cobs_eqb o ro
  end.

Fixpoint mismatches_from (i : N) (cs : list case) : list N :=
  match cs with
  | [] => []
  | c :: cs' => if case_ok c then mismatches_from (i + 1) cs' else i :: mismatches_from (i + 1) cs'
  end.
Definition mismatches (cs : list case) : list N := mismatches_from 0 cs.
