(* C06 — the contact-request handshake (internal/handshake) with symbolic cryptography.
   Definitions only.

   Scalars (ephemeral and account private keys; Ed25519 -> X25519 is the identity on
   identifiers) are N; a public point is the point of a scalar, a low-order point, or a point
   nobody knows the logarithm of.  X25519 with a low-order point gives the all-zero secret
   whatever the scalar.  box key = SHA-256(s1 | s2) is the pair (s1, s2).  A box opens only
   under the same key and nonce; a signature verifies only for the signer's key and the signed
   value.  [chk] = the peer's ephemeral key is validated (low-order points refused) — bound to the
   current source by Gen/Handshake.v. *)
From Coq Require Import List NArith Bool.
Import ListNotations.
Open Scope N_scope.

Inductive point := Pt (s : N) | LowOrder | PtJunk (n : N).
Inductive sec := DH (x y : N) | Zero | DHJ (s n : N).

Definition dh (s : N) (P : point) : sec :=
  match P with
  | Pt t => if s <=? t then DH s t else DH t s
  | LowOrder => Zero
  | PtJunk n => DHJ s n
  end.

Definition sec_eqb (a b : sec) : bool :=
  match a, b with
  | DH x y, DH x' y' => (x =? x') && (y =? y')
  | Zero, Zero => true
  | DHJ s n, DHJ s' n' => (s =? s') && (n =? n')
  | _, _ => false
  end.

Definition is_low (P : point) : bool := match P with LowOrder => true | _ => false end.

Inductive ktype := Ed25519 | OtherKeyType.

(* step 3 frame: box[k1|k2] nonce (account, key type, signature by [signer] over [msg]) *)
Inductive aframe :=
| AuthF (k1 k2 : sec) (nonce : N) (acct : N) (kt : ktype) (signer : N) (msg : sec)
| AuthJunk.
(* step 4 frame: box[k1|k2] nonce (signature by [signer] over [msg]) *)
Inductive cframe :=
| AccF (k1 k2 : sec) (nonce : N) (signer : N) (msg : sec)
| AccJunk.

Definition nonce_auth : N := 1.
Definition nonce_accept : N := 2.

(* ResponseUsingReaderWriter: own account B, fresh ephemeral b; receives the hello point X,
   the authenticate frame F and the acknowledge.  Result: the account it reports, and the
   accept frame it sent (if it got that far). *)
Definition responder (chk : bool) (B b : N) (X : point) (F : aframe) (ack : option bool)
  : option N * option cframe :=
  if chk && is_low X then (None, None)
  else
    let shared := dh b X in
    match F with
    | AuthJunk => (None, None)
    | AuthF k1 k2 n A kt signer msg =>
      if negb (sec_eqb k1 shared && sec_eqb k2 (dh B X) && (n =? nonce_auth)) then (None, None)
      else if negb ((signer =? A) && sec_eqb msg shared) then (None, None)
      else match kt with
           | OtherKeyType => (None, None)      (* accept box key needs an Ed25519 peer key *)
           | Ed25519 =>
             let sent := AccF shared (dh B (Pt A)) nonce_accept B shared in
             match ack with
             | Some true => (Some A, Some sent)
             | _ => (None, Some sent)
             end
           end
    end.

(* RequestUsingReaderWriter: own account A, fresh ephemeral a, target account B; receives the
   hello point Y and the accept frame G.  Result: success, and the authenticate frame sent. *)
Definition requester (chk : bool) (A a B : N) (Y : point) (G : cframe) : bool * option aframe :=
  if chk && is_low Y then (false, None)
  else
    let shared := dh a Y in
    let sent := AuthF shared (dh a (Pt B)) nonce_auth A Ed25519 A shared in
    match G with
    | AccJunk => (false, Some sent)
    | AccF k1 k2 n signer msg =>
      if negb (sec_eqb k1 shared && sec_eqb k2 (dh A (Pt B)) && (n =? nonce_accept)) then (false, Some sent)
      else if negb ((signer =? B) && sec_eqb msg shared) then (false, Some sent)
      else (true, Some sent)
    end.

(* an honest run: requester (A, a) targets B; responder (B', b) *)
Definition honest_run (chk : bool) (A a Btarget B' b : N) : bool * option N :=
  match snd (requester chk A a Btarget (Pt b) AccJunk) with
  | None => (false, None)
  | Some auth =>
    match responder chk B' b (Pt a) auth (Some true) with
    | (_, None) => (false, None)
    | (_, Some acc) =>
      let ok := fst (requester chk A a Btarget (Pt b) acc) in
      (ok, fst (responder chk B' b (Pt a) auth (if ok then Some true else None)))
    end
  end.

(* ---------- correspondence ---------- *)

(* ---- contact_request_manager.go handleIncomingRequest: after the handshake the requester sends
   its contact card; the request is recorded for the key the handshake proved, provided the card
   names that very key and is well formed (the rendezvous seed may be missing) ---- *)
Inductive card := Card (pk : N) (format_ok : bool) | NoCard.

Definition incoming (self : N) (hs : option N) (c : card) : option N :=
  match hs, c with
  | Some A, Card pk true => if (pk =? A) && negb (A =? self) then Some A else None
  | _, _ => None
  end.

(* ---- contact_request_manager.go SendContactRequest: the requester role towards the key the user
   asked for; only when it succeeded is the own contact card written to the stream and the request
   marked as sent in the account group: (card written, marked sent) ---- *)
Definition outgoing (hs_ok : bool) : bool * bool := (hs_ok, hs_ok).
Definition outgoing_run (chk : bool) (A a B : N) (Y : point) (G : cframe) : bool * bool :=
  outgoing (fst (requester chk A a B Y G)).

(* ---- a peer that performs its first [sends] sends of an honest run and then stays silent, the stream
   staying open: the role never gets the frame it waits for (a frame that never comes is, for the role, a
   frame that does not open: it cannot go on).  Requester (A, a) towards B against such a responder
   (its sends: hello, accept); responder (B, b) against such a requester (hello, authenticate,
   acknowledge) ---- *)
Definition requester_vs_stalling (chk : bool) (A a B b : N) (sends : N) : bool :=
  if sends =? 0 then false
  else if sends =? 1 then fst (requester chk A a B (Pt b) AccJunk)
  else fst (honest_run chk A a B B b).

Definition responder_vs_stalling (chk : bool) (A a B b : N) (sends : N) : option N :=
  if sends =? 0 then None
  else match snd (requester chk A a B (Pt b) AccJunk) with
       | None => None
       | Some auth =>
           if sends =? 1 then fst (responder chk B b (Pt a) AuthJunk None)
           else if sends =? 2 then fst (responder chk B b (Pt a) auth None)
           else fst (responder chk B b (Pt a) auth (Some true))
       end.

Inductive case :=
| CStallReq (chk : bool) (A a B b : N) (sends : N) (obs : bool)
| CStallResp (chk : bool) (A a B b : N) (sends : N) (obs : option N)
| COutgoing (hs_ok card_written marked_sent : bool)
| CIncoming (self : N) (hs : option N) (c : card) (obs : option N)
| CHonest (chk : bool) (A a Btarget B' b : N) (obs_req : bool) (obs_resp : option N)
| CResp (chk : bool) (B b : N) (X : point) (F : aframe) (ack : option bool) (obs : option N)
| CReq (chk : bool) (A a B : N) (Y : point) (G : cframe) (obs : bool).

Definition optN_eqb (a b : option N) : bool :=
  match a, b with None, None => true | Some x, Some y => x =? y | _, _ => false end.

Definition check_case (c : case) : bool :=
  match c with
  | CStallReq chk A a B b n obs => Bool.eqb (requester_vs_stalling chk A a B b n) obs
  | CStallResp chk A a B b n obs => optN_eqb (responder_vs_stalling chk A a B b n) obs
  | COutgoing hs w m => let '(w', m') := outgoing hs in Bool.eqb w w' && Bool.eqb m m'
  | CIncoming self hs c obs => optN_eqb (incoming self hs c) obs
  | CHonest chk A a Bt B' b o1 o2 =>
    let '(r1, r2) := honest_run chk A a Bt B' b in Bool.eqb r1 o1 && optN_eqb r2 o2
  | CResp chk B b X F ack obs => optN_eqb (fst (responder chk B b X F ack)) obs
  | CReq chk A a B Y G obs => Bool.eqb (fst (requester chk A a B Y G)) obs
  end.

Fixpoint mismatches_from (i : N) (cs : list case) : list N :=
  match cs with
  | [] => []
  | c :: cs' => if check_case c then mismatches_from (i + 1) cs' else i :: mismatches_from (i + 1) cs'
  end.
Definition mismatches := mismatches_from 0.
