(* C13 — event listings: store_utils.go getEntriesInRange / iterateOverEntries over the entries of
   a log in log order, and api_event.go checkParametersConsistency.  Definitions only.
   Identifiers are numbers; the log order is Model.MetaLog.sort_entries. *)
From Coq Require Import List NArith Bool Arith.
From Wesh Require Import Model.MetaLog.
Import ListNotations.
Open Scope nat_scope.

(* index of the first occurrence *)
Fixpoint find_id (x : N) (l : list N) : option nat :=
  match l with
  | [] => None
  | y :: l' => if N.eqb y x then Some 0%nat else option_map S (find_id x l')
  end.

(* getEntriesInRange.  start is the index of since (0 when absent); stop1 is the index of until
   plus one (the length when absent); "since after until" is refused on a non-empty list *)
Definition get_range (l : list N) (since until : option N) : option (list N) :=
  let start := match since with None => Some 0%nat | Some s => find_id s l end in
  let stop1 := match until with None => Some (length l) | Some u => option_map S (find_id u l) end in
  match start, stop1 with
  | Some a, Some b =>
      if Nat.ltb b (S a) && negb (Nat.eqb (length l) 0) then None
      else Some (firstn (b - a) (skipn a l))
  | _, _ => None
  end.

Definition list_ids (l : list N) (since until : option N) (reverse : bool) : option (list N) :=
  option_map (fun r => if reverse then rev r else r) (get_range l since until).

(* the listing of a store holding the entries [es] (in any order) *)
Definition list_events (es : list entry) (since until : option N) (reverse : bool) : option (list N) :=
  list_ids (map e_id (sort_entries es)) since until reverse.

(* checkParametersConsistency: true = accepted *)
Definition check_params (since_id since_now until_id until_now reverse : bool) : bool :=
  negb (since_id && since_now) && negb (until_id && until_now) && negb (since_now && until_now) &&
  negb (negb until_id && negb until_now && reverse).

(* ---- correspondence cases ---- *)
Definition oN_eqb (a b : option N) : bool :=
  match a, b with Some x, Some y => N.eqb x y | None, None => true | _, _ => false end.
Fixpoint ids_eqb (a b : list N) : bool :=
  match a, b with
  | [], [] => true
  | x :: a', y :: b' => N.eqb x y && ids_eqb a' b'
  | _, _ => false
  end.
Definition res_eqb (a b : option (list N)) : bool :=
  match a, b with Some x, Some y => ids_eqb x y | None, None => true | _, _ => false end.

(* the message store hands out the entries of the range that OPEN (an entry whose sender's chain key
   the reader does not hold is logged and skipped): the listing of the range minus those *)
Definition list_open_events (es : list entry) (since until : option N) (reverse : bool) (unopenable : list N) : option (list N) :=
  option_map (filter (fun i => negb (existsb (N.eqb i) unopenable))) (list_events es since until reverse).

Inductive case :=
| CListSkip (es : list entry) (since until : option N) (reverse : bool) (unopenable : list N) (observed : option (list N))
| CList (es : list entry) (since until : option N) (reverse : bool) (observed : option (list N))
| CParams (since_id since_now until_id until_now reverse : bool) (accepted : bool).

Definition case_ok (c : case) : bool :=
  match c with
  | CListSkip es s u r skip obs => res_eqb (list_open_events es s u r skip) obs
  | CList es s u r obs => res_eqb (list_events es s u r) obs
  | CParams a b c d e acc => Bool.eqb (check_params a b c d e) acc
  end.

Fixpoint mismatches_from (i : N) (cs : list case) : list N :=
  match cs with
  | [] => []
  | c :: cs' => if case_ok c then mismatches_from (i + 1) cs' else i :: mismatches_from (i + 1) cs'
  end.
Definition mismatches (cs : list case) : list N := mismatches_from 0%N cs.
