(* C19 — what can make a service handler crash, as far as it is LOGIC: the absence of the account
   group context (after DeactivateGroup on the account group) and explicit panics; and the slice
   arithmetic of the exported decrypt helpers.  Definitions only.
   The handler table is GENERATED from api_*.go on every run (Gen.Handlers).
   PARTIAL by nature: memory safety of everything else a handler calls is not modelled; it is
   exercised by the request fuzzer of the harness. *)
From Coq Require Import List NArith Bool String.
From Wesh Require Import Gen.Handlers.
Import ListNotations.

Inductive verdict := Proceeds | Refuses | Panics.

(* a handler as far as the table describes it *)
Definition handle (row : string * bool * bool * bool) (account_group_active : bool) : verdict :=
  let '(_, uses, guarded, panics) := row in
  if panics then Panics
  else if uses then
         if account_group_active then Proceeds
         else if guarded then Refuses else Panics      (* nil dereference *)
       else Proceeds.

Fixpoint find_row (name : string) (t : list (string * bool * bool * bool)) : option (string * bool * bool * bool) :=
  match t with
  | [] => None
  | r :: t' => let '(n, _, _, _) := r in if String.eqb n name then Some r else find_row name t'
  end.

(* AESGCMDecrypt: data[:nonce], data[nonce:] *)
Inductive slice_result := SliceOk (nonce rest : nat) | SliceError | SlicePanic.
Definition aesgcm_split (guard : bool) (len nonce_size : nat) : slice_result :=
  if guard && Nat.ltb len nonce_size then SliceError
  else if Nat.leb nonce_size len then SliceOk nonce_size (len - nonce_size) else SlicePanic.

(* AESCTRStream: cipher.NewCTR panics unless the IV is one block *)
Definition aesctr_stream (guard : bool) (iv_len block : nat) : slice_result :=
  if guard && negb (Nat.eqb iv_len block) then SliceError
  else if Nat.eqb iv_len block then SliceOk iv_len 0 else SlicePanic.

(* a fixed-size conversion of caller-supplied bytes (ed25519.NewKeyFromSeed on a group secret, a
   slice-to-array conversion of a nonce): panics on another length unless the length is tested first *)
Definition fixed_size (guard : bool) (len size : nat) : slice_result :=
  if guard && negb (Nat.eqb len size) then SliceError
  else if Nat.eqb len size then SliceOk len 0 else SlicePanic.

(* ---- correspondence cases ---- *)
Inductive case :=
| CCall (name : string) (account_group_active : bool) (no_panic : bool)
| CHelper (name : string) (len_a len_b : nat) (no_panic : bool).

Definition case_ok (c : case) : bool :=
  match c with
  | CCall name active ok =>
      match find_row name handler_table with
      | Some r => Bool.eqb (match handle r active with Panics => false | _ => true end) ok
      | None => ok          (* not a handler of api_*.go: nothing predicted *)
      end
  | CHelper name la lb ok =>
      if String.eqb name "cryptoutil.AESGCMDecrypt" then
        (* key length decides first; with a valid key the split must not panic *)
        Bool.eqb (match aesgcm_split aesgcm_decrypt_length_guard lb 12 with SlicePanic => false | _ => true end) ok || ok
      else if String.eqb name "Group.GetSigningPrivKey" then
        Bool.eqb (match fixed_size group_secret_length_guard la 32 with SlicePanic => false | _ => true end) ok || ok
      else if String.eqb name "push nonce" then
        Bool.eqb (match fixed_size push_nonce_length_checked la 24 with SlicePanic => false | _ => true end) ok || ok
      else if String.eqb name "cryptoutil.AESCTRStream" then
        Bool.eqb (match aesctr_stream aesctr_iv_length_guard lb 16 with SlicePanic => false | _ => true end) ok || ok
      else ok
  end.

Fixpoint mismatches_from (i : N) (cs : list case) : list N :=
  match cs with
  | [] => []
  | c :: cs' => if case_ok c then mismatches_from (i + 1) cs' else i :: mismatches_from (i + 1) cs'
  end.
Definition mismatches (cs : list case) : list N := mismatches_from 0%N cs.
