(* Executable model of pkg/secretstore's message-key bookkeeping at the level of datastore
   reads and writes (definitions only).  Shared by C01, C02, C09, C10, C14.

   Modelled code (pkg/secretstore/secret_store_messages.go unless stated):
     registerChainKey / RegisterChainKey, preComputeKeys, preComputeNextKey,
     putPrecomputedKeys, putKeyForCID, getKeyForCID, getPrecomputedMessageKey,
     delPrecomputedKey, openPayload, openPayloadWithMessageKey, postDecryptActions,
     OpenEnvelopePayload, SealEnvelope, sealEnvelope/sealPayload, deriveDeviceChainKey,
     updateCurrentKey, getOwnDeviceChainKeyForGroup, deriveNextKeys,
     UpdateOutOfStoreGroupReferences, OutOfStoreMessageOpen, OpenOutOfStoreMessage
     (secret_store.go), datastore_keys.go (key layout).

   Symbolic cryptography: a chain-key value is [(origin, idx)] — the idx-th HKDF iterate of
   the random value [origin]; deriveNextKeys (o,i) = ((o,i+1), message key (o,i+1)).
   secretbox.Open succeeds iff the key is the sealing key (nonce = counter is part of the
   envelope's identity); a signature verifies iff the signer is the device named in the
   headers. *)
From Coq Require Import List NArith Bool.
Import ListNotations.
Open Scope N_scope.

(* ---------- datastore ---------- *)

Inductive dkey :=
| KChain (g d : N)              (* chainKeyForDeviceOnGroup/<g>/<d> *)
| KPre (g d ctr : N)            (* precomputedMessageKeys/<g>/<d>/<ctr> *)
| KCid (cid : N)                (* messageKeyForCIDs/<cid> *)
| KRef (g d ctr : N)            (* outOfStoreGroupHint/<ref(g,d,ctr)> *)
| KFirstLast (g d : N).         (* outOfStoreGroupHintCounters/<g>/<d> *)

Definition chain := (N * N)%type.      (* origin, index *)
Definition msgkey := (N * N)%type.     (* origin, index *)

Inductive dval :=
| VChain (ctr : N) (ck : chain)
| VKey (mk : msgkey)
| VGroup (g : N)
| VFirstLast (first last : N).

Definition dkey_eqb (a b : dkey) : bool :=
  match a, b with
  | KChain g d, KChain g' d' => (g =? g') && (d =? d')
  | KPre g d c, KPre g' d' c' => (g =? g') && (d =? d') && (c =? c')
  | KCid c, KCid c' => c =? c'
  | KRef g d c, KRef g' d' c' => (g =? g') && (d =? d') && (c =? c')
  | KFirstLast g d, KFirstLast g' d' => (g =? g') && (d =? d')
  | _, _ => false
  end.

Definition store := dkey -> option dval.
Definition empty_store : store := fun _ => None.
Definition put (k : dkey) (v : dval) (s : store) : store :=
  fun k' => if dkey_eqb k k' then Some v else s k'.
Definition del (k : dkey) (s : store) : store :=
  fun k' => if dkey_eqb k k' then None else s k'.

Inductive mut :=
| MPut (k : dkey) (v : dval)
| MDel (k : dkey)
| MBatch (kvs : list (dkey * dval)).    (* one atomic commit *)

Definition apply_mut (s : store) (m : mut) : store :=
  match m with
  | MPut k v => put k v s
  | MDel k => del k s
  | MBatch kvs => fold_left (fun s kv => put (fst kv) (snd kv) s) kvs s
  end.
Definition apply_muts (s : store) (ms : list mut) : store := fold_left apply_mut ms s.

(* ---------- typed reads ---------- *)

Definition get_chain (s : store) (g d : N) : option (N * chain) :=
  match s (KChain g d) with Some (VChain c ck) => Some (c, ck) | _ => None end.
Definition get_pre (s : store) (g d k : N) : option msgkey :=
  match s (KPre g d k) with Some (VKey mk) => Some mk | _ => None end.
Definition get_cid (s : store) (cid : N) : option msgkey :=
  match s (KCid cid) with Some (VKey mk) => Some mk | _ => None end.

(* ---------- key derivation ---------- *)

Definition derive (ck : chain) : chain * msgkey :=
  ((fst ck, snd ck + 1), (fst ck, snd ck + 1)).

Definition msgkey_eqb (a b : msgkey) : bool := (fst a =? fst b) && (snd a =? snd b).

(* ---------- envelopes ---------- *)

(* what a sealed envelope is, symbolically *)
Record envelope := {
  e_group : N;       (* group whose secret boxes the headers *)
  e_dev : N;         (* DevicePk in the headers *)
  e_ctr : N;         (* Counter in the headers (also the payload nonce) *)
  e_key : msgkey;    (* key the payload is sealed with *)
  e_payload : N;     (* payload identity *)
  e_signer : N;      (* device whose key made Sig over the payload *)
}.

Inductive result := ROk (payload : N) | RFail.

(* ---------- preComputeKeys ---------- *)

(* loop of preComputeKeys: i iterations from (counter, chain value); [known] = chain key
   already stored for the device (read once, before the loop) *)
Fixpoint precompute_loop (s : store) (g d : N) (known : option (N * chain)) (w : nat)
         (c : N) (ck : chain) (acc : list (dkey * dval)) : list (dkey * dval) * (N * chain) :=
  match w with
  | O => (rev acc, (c, ck))
  | S w' =>
    let c1 := c + 1 in
    let '(ck1, mk) := derive ck in
    let skip := match get_pre s g d c1, known with
                | Some _, Some (kc, _) => negb (kc =? c1 - 1)
                | _, _ => false
                end in
    precompute_loop s g d known w' c1 ck1 (if skip then acc else (KPre g d c1, VKey mk) :: acc)
  end.

Definition precompute_keys (s : store) (g d : N) (w : nat) (c : N) (ck : chain) :=
  precompute_loop s g d (get_chain s g d) w c ck [].

(* registerChainKey (without the out-of-store reference update that follows it) *)
Definition register_muts (W : nat) (s : store) (g d c : N) (ck : chain) (own : bool) : list mut :=
  match get_chain s g d with
  | Some _ => []                                  (* already registered: ignored *)
  | None =>
    if own then [MPut (KChain g d) (VChain c ck)]
    else
      let '(kvs, (c', ck')) := precompute_keys s g d W c ck in
      (match kvs with [] => [] | _ => [MBatch kvs] end) ++ [MPut (KChain g d) (VChain c' ck')]
  end.

(* preComputeNextKey: Some (batch, new chain key) or None when the chain key is missing *)
Definition precompute_next (s : store) (g d : N) : option (mut * (N * chain)) :=
  match get_chain s g d with
  | None => None
  | Some (c, ck) =>
    let '(ck1, mk) := derive ck in
    Some (MBatch [(KPre g d (c + 1), VKey mk)], (c + 1, ck1))
  end.

(* updateCurrentKey, evaluated on the store after the preceding mutations *)
Definition update_current_muts (s : store) (g d : N) (new : N * chain) : option (list mut) :=
  match get_chain s g d with
  | None => None
  | Some (cur, _) =>
    if fst new <? cur then Some [] else Some [MPut (KChain g d) (VChain (fst new) (snd new))]
  end.

(* OpenEnvelopePayload with a defined CID.  [own] = the opener's own device in that group. *)
Definition open_step (s : store) (e : envelope) (cid : N) (own : option N) : result * list mut :=
  let g := e_group e in let d := e_dev e in
  match get_cid s cid with
  | Some mk =>                                    (* already opened under that CID: no signature check *)
    (if msgkey_eqb mk (e_key e) then ROk (e_payload e) else RFail, [])
  | None =>
    match get_pre s g d (e_ctr e) with
    | None => (RFail, [])
    | Some mk =>
      if negb (msgkey_eqb mk (e_key e)) then (RFail, [])
      else if negb (e_signer e =? d) then (RFail, [])
      else
        (* postDecryptActions *)
        let m1 := [MPut (KCid cid) (VKey mk); MDel (KPre g d (e_ctr e))] in
        let s1 := apply_muts s m1 in
        match precompute_next s1 g d with
        | None => (RFail, m1)
        | Some (b, new) =>
          let s2 := apply_mut s1 b in
          let is_own := match own with Some o => o =? d | None => false end in
          if is_own then (ROk (e_payload e), m1 ++ [b])
          else match update_current_muts s2 g d new with
               | None => (RFail, m1 ++ [b])
               | Some u => (ROk (e_payload e), m1 ++ [b] ++ u)
               end
        end
    end
  end.

(* SealEnvelope by device [d] of group [g]: envelope and mutations (deriveDeviceChainKey) *)
Definition seal_step (s : store) (g d payload : N) : option envelope * list mut :=
  match get_chain s g d with
  | None => (None, [])
  | Some (c, ck) =>
    let '(_, mk) := derive ck in
    let e := {| e_group := g; e_dev := d; e_ctr := c + 1; e_key := mk;
                e_payload := payload; e_signer := d |} in
    match precompute_next s g d with
    | None => (None, [])
    | Some (b, new) =>
      let s1 := apply_mut s b in
      match update_current_muts s1 g d new with
      | None => (None, [b])
      | Some u => (Some e, b :: u)
      end
    end
  end.

(* getOwnDeviceChainKeyForGroup: create (0, fresh origin) when missing *)
Definition own_chain_muts (s : store) (g d origin : N) : list mut :=
  match get_chain s g d with
  | Some _ => []
  | None => [MPut (KChain g d) (VChain 0 (origin, 0))]
  end.

(* the honest sender's state after sealing [n] messages, origin [o]: counter n, chain (o,n);
   the envelope it produced for counter k *)
Definition honest_env (g d o k : N) (payload : N) : envelope :=
  {| e_group := g; e_dev := d; e_ctr := k; e_key := (o, k); e_payload := payload; e_signer := d |}.
