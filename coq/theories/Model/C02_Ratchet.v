(* C02 — receiver ratchet: histories over the store model, and the abstract ratchet they
   are proved to refine (definitions only). *)
From Coq Require Import List NArith Bool.
From Wesh Require Import Model.Store.
Import ListNotations.
Open Scope N_scope.

(* One receiver (not a sender itself), one group [g]; sender devices are identified by N,
   device d's random initial chain value is origin d, its initial counter 0.  *)
Inductive rop :=
| RReg (d c : N)            (* RegisterChainKey with the announcement d made after c seals *)
| ROpen (d k cid : N)       (* OpenEnvelopePayload of d's k-th envelope, delivered under [cid] *)
| RKnown (d : N)            (* IsChainKeyKnownForDevice *)
| RSealOwn (d : N).         (* the store's own device d seals a message (C01/C10 histories only) *)

Inductive out := OOk (payload : N) | OFail | ODone | OBool (b : bool).

Definition out_eqb (a b : out) : bool :=
  match a, b with
  | OOk x, OOk y => x =? y
  | OFail, OFail | ODone, ODone => true
  | OBool x, OBool y => Bool.eqb x y
  | _, _ => false
  end.

Definition grp : N := 0.

(* the payload identity of d's k-th message is its cid *)
Definition rstep (W : nat) (s : store) (o : rop) : store * out :=
  match o with
  | RReg d c => (apply_muts s (register_muts W s grp d c (d, c) false), ODone)
  | ROpen d k cid =>
    let '(r, ms) := open_step s (honest_env grp d d k cid) cid None in
    (apply_muts s ms, match r with ROk p => OOk p | RFail => OFail end)
  | RKnown d => (s, OBool (match s (KChain grp d) with Some _ => true | None => false end))
  | RSealOwn d =>
    let s1 := apply_muts s (own_chain_muts s grp d d) in
    (apply_muts s1 (snd (seal_step s1 grp d 0)), ODone)
  end.

Fixpoint rrun (W : nat) (s : store) (ops : list rop) : list out :=
  match ops with
  | [] => []
  | o :: ops' => let '(s', r) := rstep W s o in r :: rrun W s' ops'
  end.

(* ---------- abstract ratchet (the specification) ---------- *)

(* per sender device: registration counter c and the counters opened so far *)
Definition sstate := N -> option (N * list N).

Fixpoint memN (k : N) (l : list N) : bool :=
  match l with [] => false | x :: l' => (x =? k) || memN k l' end.

Definition supd (st : sstate) (d : N) (v : N * list N) : sstate :=
  fun d' => if d' =? d then Some v else st d'.

Definition sstep (W : nat) (st : sstate) (o : rop) : sstate * out :=
  match o with
  | RReg d c =>
    (match st d with Some _ => st | None => supd st d (c, []) end, ODone)
  | ROpen d k cid =>
    match st d with
    | None => (st, OFail)
    | Some (c, opened) =>
      if memN k opened then (st, OOk cid)
      else if (c <? k) && (k <=? c + N.of_nat W + N.of_nat (length opened))
           then (supd st d (c, k :: opened), OOk cid)
           else (st, OFail)
    end
  | RKnown d => (st, OBool (match st d with Some _ => true | None => false end))
  | RSealOwn _ => (st, ODone)
  end.

Fixpoint srun (W : nat) (st : sstate) (ops : list rop) : list out :=
  match ops with
  | [] => []
  | o :: ops' => let '(st', r) := sstep W st o in r :: srun W st' ops'
  end.

Definition sinit : sstate := fun _ => None.

(* ---------- correspondence cases ---------- *)

Fixpoint outs_eqb (a b : list out) : bool :=
  match a, b with
  | [], [] => true
  | x :: a', y :: b' => out_eqb x y && outs_eqb a' b'
  | _, _ => false
  end.

Inductive case := CRatchet (W : nat) (ops : list rop) (obs : list out).

Definition check_case (c : case) : bool :=
  match c with CRatchet W ops obs => outs_eqb (rrun W empty_store ops) obs end.

Fixpoint mismatches_from (i : N) (cs : list case) : list N :=
  match cs with
  | [] => []
  | c :: cs' => if check_case c then mismatches_from (i + 1) cs' else i :: mismatches_from (i + 1) cs'
  end.
Definition mismatches := mismatches_from 0.
