(* C04 (alias keys) — the alias keys of a contact group (store_metadata_index.go:
   handleContactAliasKeyAdded, postHandlerSentAliases, UpdateIndex's postIndexActions).
   Definitions only.

   The handler of a ContactAliasKeyAdded event only QUEUES the event; after the scan of the whole
   log (newest first) UpdateIndex runs the post-index action, which walks the queue in order and,
   for each queued event, looks the announcing device up in the device map as it stands AFTER the
   scan: an alias of the own member sets ownAliasKeySent, an alias of the other member is stored
   as otherAliasKey (each one overwriting the previous, so the oldest of the pass stays).  An
   event whose device is not known is skipped (before the repair 2f.. it made the action, and the
   whole index update, fail: see the pinned definitions).  Neither flag is reset between two
   UpdateIndex calls. *)
From Coq Require Import List NArith Bool.
From Wesh Require Import Model.MetaLog.
Import ListNotations.
Open Scope N_scope.

Record astate := mkA { a_sent : bool; a_other : option N }.
Definition ainit : astate := mkA false None.

Definition alias_of (e : ev) : list (N * N) := match e with EAlias d k => [(d, k)] | _ => [] end.
Definition aliases (newest_first : list ev) : list (N * N) := flat_map alias_of newest_first.

(* postHandlerSentAliases on the queue [q]: (ownAliasKeySent, otherAliasKey).  An event whose device
   is not in the device map is skipped. *)
Fixpoint post_alias (ownm : N) (devs : N -> option N) (q : list (N * N)) (sent : bool) (other : option N)
  : bool * option N :=
  match q with
  | [] => (sent, other)
  | (d, k) :: q' =>
      match devs d with
      | None => post_alias ownm devs q' sent other
      | Some m => if m =? ownm then post_alias ownm devs q' true other
                  else post_alias ownm devs q' sent (Some k)
      end
  end.

Definition alias_pass (ownm : N) (devs : N -> option N) (a : astate) (newest_first : list ev) : astate :=
  match post_alias ownm devs (aliases newest_first) (a_sent a) (a_other a) with
  | (sent, other) => mkA sent other
  end.

(* one UpdateIndex call, alias keys included: [ownm] is the own member key, [own] the own device *)
Definition update_full (own ownm : N) (s : gstate * astate) (es : list entry) : gstate * astate :=
  let g := update_index own (fst s) es in
  (g, alias_pass ownm (g_dev g) (snd s) (rev (map e_ev (sort_entries es)))).

Definition full_init : gstate * astate := (ginit, ainit).
Definition index_full (own ownm : N) (es : list entry) : gstate * astate := update_full own ownm full_init es.

(* ---- the pinned behaviour before the repair: an unknown device made the action return an error:
   the walk stopped there, the queue was kept and the next pass appended to it ---- *)

Record pstate := mkP { p_sent : bool; p_other : option N; p_pending : list (N * N) }.

Fixpoint post_alias_pinned (ownm : N) (devs : N -> option N) (q : list (N * N)) (sent : bool) (other : option N)
  : bool * option N * bool :=
  match q with
  | [] => (sent, other, true)
  | (d, k) :: q' =>
      match devs d with
      | None => (sent, other, false)
      | Some m => if m =? ownm then post_alias_pinned ownm devs q' true other
                  else post_alias_pinned ownm devs q' sent (Some k)
      end
  end.

Definition alias_pass_pinned (ownm : N) (devs : N -> option N) (a : pstate) (newest_first : list ev) : pstate :=
  let q := p_pending a ++ aliases newest_first in
  match post_alias_pinned ownm devs q (p_sent a) (p_other a) with
  | (sent, other, ok) => mkP sent other (if ok then [] else q)
  end.

Definition update_full_pinned (own ownm : N) (s : gstate * pstate) (es : list entry) : gstate * pstate :=
  let g := update_index own (fst s) es in
  (g, alias_pass_pinned ownm (g_dev g) (snd s) (rev (map e_ev (sort_entries es)))).

(* ---- what the alias keys are, as a function of the log alone ---- *)

Definition is_own (ownm : N) (devs : N -> option N) (dk : N * N) : bool :=
  match devs (fst dk) with Some m => m =? ownm | None => false end.
Definition is_other (ownm : N) (devs : N -> option N) (dk : N * N) : bool :=
  match devs (fst dk) with Some m => negb (m =? ownm) | None => false end.

Definition has_own ownm devs (q : list (N * N)) : bool := existsb (is_own ownm devs) q.
(* key of the last alias of the other member in [q] *)
Definition last_other ownm devs (q : list (N * N)) (dflt : option N) : option N :=
  fold_left (fun o dk => if is_other ownm devs dk then Some (snd dk) else o) q dflt.

(* the other member publishes one alias key (its account proof key, what ContactSendAliasKey sends) *)
Definition other_alias_constant ownm devs (q : list (N * N)) (key : N) : Prop :=
  forall dk, In dk q -> is_other ownm devs dk = true -> snd dk = key.

(* log-order reading: the latest alias of the other member wins *)
Definition latest_other ownm devs (oldest_first : list (N * N)) : option N := last_other ownm devs oldest_first None.

