(* C08 — the consumer loop of store_message.go composed with the receiver ratchet and its KEY
   WINDOW (C02's abstract ratchet [sstep], which the datastore-level store model refines).
   Definitions only.

   Model.C08_Pipeline abstracts the secret store to "a message opens iff its counter is not below the
   announcement".  The real store precomputes message keys for [W] counters beyond the last one it
   opened, so a decryptable message far ahead of what has been opened so far does not open YET: the
   loop parks it with the chain key KNOWN, and only a later success of the same device (which flushes
   the whole parked queue of that device back into the FIFO) gives it another try.  This model runs
   that retry discipline sequentially (one consumer; registration = RegisterChainKey followed by
   ProcessMessageQueueForDevicePK, as GroupContext issues them; the interleavings of the three tasks
   are Model.C08_Pipeline's subject):

     consumer step   = one iteration of processMessageLoop: pop, look the chain key up
                       (getOrCreateDeviceCache), park / processMessage / re-park / flush + emit
     WArrive m       = addToMessageQueue
     WRegister d c   = RegisterChainKey (ratchet [RReg]) + ProcessMessageQueueForDevicePK (flush)
     WDrain          = the loop runs until the FIFO is empty *)
From Coq Require Import List NArith Bool Arith.
From Wesh Require Import Model.Store Model.C02_Ratchet.
Import ListNotations.
Open Scope N_scope.

Record wmsg := mkW { w_dev : N; w_ctr : N }.

Definition wmsg_eqb (a b : wmsg) : bool := (w_dev a =? w_dev b) && (w_ctr a =? w_ctr b).

Record wstate := mkWS {
  w_fifo : list wmsg;          (* messagesQueue *)
  w_parked : list wmsg;        (* the per-device priority queues, all devices together *)
  w_rat : sstate;              (* receiver ratchet of every sender device (C02) *)
  w_delivered : list wmsg;     (* GroupMessageEvent emissions, in order *)
  w_arrived : list wmsg        (* entries handed to addToMessageQueue, in order *)
}.

Definition winit : wstate := mkWS [] [] sinit [] [].

(* the message identifier under which an entry is opened: one per (device, counter) - an honest
   device seals one entry per counter, a repeated arrival is the same entry *)
Definition wcid (m : wmsg) : N := w_ctr m.

Definition opens (W : nat) (r : sstate) (m : wmsg) : bool :=
  match snd (sstep W r (ROpen (w_dev m) (w_ctr m) (wcid m))) with OOk _ => true | _ => false end.

Definition of_dev (d : N) (m : wmsg) : bool := w_dev m =? d.

(* heap order of a device queue: ascending counter *)
Fixpoint winsert (m : wmsg) (l : list wmsg) : list wmsg :=
  match l with
  | [] => [m]
  | x :: l' => if w_ctr m <=? w_ctr x then m :: l else x :: winsert m l'
  end.
Definition wsort (l : list wmsg) : list wmsg := fold_right winsert [] l.

(* processDeviceMessagesInQueue: the whole queue of the device goes back to the FIFO *)
Definition flush (d : N) (s : wstate) : wstate :=
  mkWS (w_fifo s ++ wsort (filter (of_dev d) (w_parked s)))
       (filter (fun m => negb (of_dev d m)) (w_parked s))
       (w_rat s) (w_delivered s) (w_arrived s).

(* one iteration of processMessageLoop; None = waiting on an empty FIFO *)
Definition cstep (W : nat) (s : wstate) : option wstate :=
  match w_fifo s with
  | [] => None
  | m :: rest =>
      match w_rat s (w_dev m) with
      | None =>                                  (* chain key unknown: parked by getOrCreateDeviceCache *)
          Some (mkWS rest (w_parked s ++ [m]) (w_rat s) (w_delivered s) (w_arrived s))
      | Some _ =>
          if opens W (w_rat s) m
          then let r' := fst (sstep W (w_rat s) (ROpen (w_dev m) (w_ctr m) (wcid m))) in
               Some (flush (w_dev m) (mkWS rest (w_parked s) r' (w_delivered s ++ [m]) (w_arrived s)))
          else Some (mkWS rest (w_parked s ++ [m]) (w_rat s) (w_delivered s) (w_arrived s))
      end
  end.

(* the loop until the FIFO is empty; None = out of fuel *)
Fixpoint drain (W : nat) (fuel : nat) (s : wstate) : option wstate :=
  match cstep W s with
  | None => Some s
  | Some s' => match fuel with O => None | S f => drain W f s' end
  end.

Definition pending (s : wstate) : nat := (length (w_fifo s) + length (w_parked s))%nat.
(* enough for every run (Proofs.C08_Window.drain_enough) *)
Definition fuel_for (s : wstate) : nat := (pending s * (pending s + 1) + length (w_fifo s) + 1)%nat.

Inductive wop :=
| WArrive (m : wmsg)
| WRegister (d c : N)
| WDrain.

Definition wstep (W : nat) (s : wstate) (o : wop) : option wstate :=
  match o with
  | WArrive m => Some (mkWS (w_fifo s ++ [m]) (w_parked s) (w_rat s) (w_delivered s) (w_arrived s ++ [m]))
  | WRegister d c =>
      Some (flush d (mkWS (w_fifo s) (w_parked s) (fst (sstep W (w_rat s) (RReg d c))) (w_delivered s) (w_arrived s)))
  | WDrain => drain W (fuel_for s) s
  end.

Fixpoint wrun (W : nat) (s : wstate) (ops : list wop) : option wstate :=
  match ops with
  | [] => Some s
  | o :: ops' => match wstep W s o with Some s' => wrun W s' ops' | None => None end
  end.

(* a history, then the loop comes to rest *)
Definition wfinal (W : nat) (ops : list wop) : option wstate := wrun W winit (ops ++ [WDrain]).

Definition arrivals_of (ops : list wop) : list wmsg :=
  flat_map (fun o => match o with WArrive m => [m] | _ => [] end) ops.
Definition regs_of (ops : list wop) : list (N * N) :=
  flat_map (fun o => match o with WRegister d c => [(d, c)] | _ => [] end) ops.

(* ---- a variant, for the witnesses: a message that does not open is given up (dropped) instead of
   parked again - what "retry only three times" degenerates to for a long backlog ---- *)
Definition cstep_giveup (W : nat) (s : wstate) : option wstate :=
  match w_fifo s with
  | [] => None
  | m :: rest =>
      match w_rat s (w_dev m) with
      | None => Some (mkWS rest (w_parked s ++ [m]) (w_rat s) (w_delivered s) (w_arrived s))
      | Some _ =>
          if opens W (w_rat s) m
          then let r' := fst (sstep W (w_rat s) (ROpen (w_dev m) (w_ctr m) (wcid m))) in
               Some (flush (w_dev m) (mkWS rest (w_parked s) r' (w_delivered s ++ [m]) (w_arrived s)))
          else Some (mkWS rest (w_parked s) (w_rat s) (w_delivered s) (w_arrived s))
      end
  end.
(* ... and one in which a success re-injects the parked messages only when the FIFO is empty *)
Definition cstep_lazyflush (W : nat) (s : wstate) : option wstate :=
  match w_fifo s with
  | [] => None
  | m :: rest =>
      match w_rat s (w_dev m) with
      | None => Some (mkWS rest (w_parked s ++ [m]) (w_rat s) (w_delivered s) (w_arrived s))
      | Some _ =>
          if opens W (w_rat s) m
          then let r' := fst (sstep W (w_rat s) (ROpen (w_dev m) (w_ctr m) (wcid m))) in
               let s1 := mkWS rest (w_parked s) r' (w_delivered s ++ [m]) (w_arrived s) in
               Some (match rest with [] => flush (w_dev m) s1 | _ => s1 end)
          else Some (mkWS rest (w_parked s ++ [m]) (w_rat s) (w_delivered s) (w_arrived s))
      end
  end.
Fixpoint drain_with (step : wstate -> option wstate) (fuel : nat) (s : wstate) : option wstate :=
  match step s with
  | None => Some s
  | Some s' => match fuel with O => None | S f => drain_with step f s' end
  end.

(* ---- correspondence ----
   One sender device (0), announcement made after [c] messages, entries arriving in [order] (their
   counters), the chain key registered before arrival number [reg_at] (at the end if beyond).  When
   [paced], the loop comes to rest after every arrival up to (excluding) index [batch_from] and the
   harness reports (delivered, parked) counts there; the rest arrives in one go.  [fin]: counters
   delivered at the end (ascending) and number of parked messages. *)
Fixpoint nlist_eqb (a b : list N) : bool :=
  match a, b with
  | [], [] => true
  | x :: a', y :: b' => (x =? y) && nlist_eqb a' b'
  | _, _ => false
  end.

Fixpoint ninsert (k : N) (l : list N) : list N :=
  match l with [] => [k] | x :: l' => if k <=? x then k :: l else x :: ninsert k l' end.
Definition nsort (l : list N) : list N := fold_right ninsert [] l.

Inductive case :=
| CWindow (W : N) (c : N) (order : list N) (reg_at : N) (paced : bool) (batch_from : N)
          (steps : list (N * N)) (fin_delivered : list N) (fin_parked : N).

(* the ops of the case and the observation points *)
Fixpoint case_ops (c : N) (order : list N) (i reg_at : N) (paced : bool) (batch_from : N) : list wop :=
  match order with
  | [] => if i <=? reg_at then [WRegister 0 c] else []
  | k :: rest =>
      (if i =? reg_at then [WRegister 0 c] else []) ++ [WArrive (mkW 0 k)] ++
      (if paced && (i <? batch_from) then [WDrain] else []) ++
      case_ops c rest (i + 1) reg_at paced batch_from
  end.

(* run and record (|delivered|, |parked|) after every WDrain *)
Fixpoint wrun_obs (W : nat) (s : wstate) (ops : list wop) : option (wstate * list (N * N)) :=
  match ops with
  | [] => Some (s, [])
  | o :: ops' =>
      match wstep W s o with
      | None => None
      | Some s' =>
          match wrun_obs W s' ops' with
          | None => None
          | Some (sf, obs) =>
              Some (sf, match o with
                        | WDrain => (N.of_nat (length (w_delivered s')), N.of_nat (length (w_parked s'))) :: obs
                        | _ => obs
                        end)
          end
      end
  end.

Fixpoint pairs_eqb (a b : list (N * N)) : bool :=
  match a, b with
  | [], [] => true
  | (x1, x2) :: a', (y1, y2) :: b' => (x1 =? y1) && (x2 =? y2) && pairs_eqb a' b'
  | _, _ => false
  end.

Definition case_ok (cs : case) : bool :=
  match cs with
  | CWindow W c order reg_at paced batch_from steps fd fp =>
      match wrun_obs (N.to_nat W) winit (case_ops c order 0 reg_at paced batch_from ++ [WDrain]) with
      | None => false
      | Some (s, obs) =>
          pairs_eqb (removelast obs) steps &&
          nlist_eqb (nsort (map w_ctr (w_delivered s))) fd &&
          (N.of_nat (length (w_parked s)) =? fp) && (length (w_fifo s) =? 0)%nat
      end
  end.

Fixpoint mismatches_from (i : N) (cs : list case) : list N :=
  match cs with
  | [] => []
  | c :: cs' => if case_ok c then mismatches_from (i + 1) cs' else i :: mismatches_from (i + 1) cs'
  end.
Definition mismatches (cs : list case) : list N := mismatches_from 0 cs.
