(* C05 — chain-key announcements.  (1) the box between the sender's device key and the
   recipient's member key, nonce bound to the group id (chain_key.go: encryptDeviceChainKey /
   decryptDeviceChainKey / groupIDToNonce), symbolically; (2) the distribution rules
   (group_context.go / store_metadata.go SendSecret) as a rule system over the set of metadata
   entries.  Definitions only.

   Keys are identified by N (a private key and its public half share the identifier;
   Ed25519 -> X25519 conversion is the identity on identifiers).  The X25519 agreement of a and
   b is the unordered pair {a, b}.  A box opens only under the same agreement key and nonce. *)
From Coq Require Import List NArith Bool.
From Wesh Require Import Model.Store.
Import ListNotations.
Open Scope N_scope.

Definition pairkey (a b : N) : N * N := if a <=? b then (a, b) else (b, a).

Inductive cbox := CBox (k : N * N) (nonce : N) (ctr : N) (ck : chain) | CJunk.

(* encryptDeviceChainKey: [gnonce] identifies the first 24 bytes of the group public key *)
Definition encrypt_ck (dev member gnonce ctr : N) (ck : chain) : cbox :=
  CBox (pairkey dev member) gnonce ctr ck.

(* decryptDeviceChainKey with the local member key, the claimed sender device and the group *)
Definition decrypt_ck (b : cbox) (gnonce member sender : N) : option (N * chain) :=
  match b with
  | CBox k n c ck =>
    if (fst k =? fst (pairkey sender member)) && (snd k =? snd (pairkey sender member)) && (n =? gnonce)
    then Some (c, ck) else None
  | CJunk => None
  end.

(* ---------- distribution rules ---------- *)

Inductive entry :=
| MemberDevice (m d : N)        (* GroupMemberDeviceAdded: device d of member m *)
| ChainKeyFor (s m : N).        (* GroupDeviceChainKeyAdded: device s announces its chain key to member m *)

Definition entry_eqb (a b : entry) : bool :=
  match a, b with
  | MemberDevice m d, MemberDevice m' d' => (m =? m') && (d =? d')
  | ChainKeyFor s m, ChainKeyFor s' m' => (s =? s') && (m =? m')
  | _, _ => false
  end.

Definition has (log : list entry) (e : entry) : bool := existsb (entry_eqb e) log.

Definition devices (log : list entry) : list N :=
  flat_map (fun e => match e with MemberDevice _ d => [d] | _ => [] end) log.
Definition members (log : list entry) : list N :=
  flat_map (fun e => match e with MemberDevice m _ => [m] | _ => [] end) log.
Definition member_of (log : list entry) (d : N) : option N :=
  match find (fun e => match e with MemberDevice _ d' => d' =? d | _ => false end) log with
  | Some (MemberDevice m _) => Some m
  | _ => None
  end.

(* rule: an announced device that has not yet announced its chain key to a member it sees
   does so (once per member) *)
Definition send_enabled (log : list entry) (s m : N) : bool :=
  existsb (N.eqb s) (devices log) && existsb (N.eqb m) (members log) && negb (has log (ChainKeyFor s m)).

Definition quiescent (log : list entry) : bool :=
  forallb (fun s => forallb (fun m => negb (send_enabled log s m)) (members log)) (devices log).

(* every device of the recipient member registers the sender: device d knows s iff the log
   holds s's announcement to d's member *)
Definition knows (log : list entry) (d s : N) : bool :=
  match member_of log d with Some m => has log (ChainKeyFor s m) | None => false end.

(* one step of the rule system: the first enabled send fires *)
Definition fire (log : list entry) : list entry :=
  let cands := flat_map (fun s => map (fun m => (s, m)) (members log)) (devices log) in
  match find (fun sm => send_enabled log (fst sm) (snd sm)) cands with
  | Some (s, m) => log ++ [ChainKeyFor s m]
  | None => log
  end.

Fixpoint saturate (fuel : nat) (log : list entry) : list entry :=
  match fuel with O => log | S f => if quiescent log then log else saturate f (fire log) end.

(* ---------- correspondence ---------- *)

Definition ores_eqb (a b : option (N * chain)) : bool :=
  match a, b with
  | None, None => true
  | Some (c, ck), Some (c', ck') => (c =? c') && msgkey_eqb ck ck'
  | _, _ => false
  end.

Inductive case :=
| CAnn (dev member gnonce ctr : N) (ck : chain) (altered : bool)
       (open_gnonce open_member open_sender : N) (obs : option (N * chain))
| CDist (log : list entry) (pairs : list (N * N * bool)).   (* converged metadata log; (device, sender device, key registered) *)

Definition check_case (c : case) : bool :=
  match c with
  | CAnn dev member gn ctr ck altered ogn om os obs =>
    let b := if altered then CJunk else encrypt_ck dev member gn ctr ck in
    ores_eqb (decrypt_ck b ogn om os) obs
  | CDist log pairs =>
    quiescent log && forallb (fun p => let '(d, s, k) := p in Bool.eqb (knows log d s) k) pairs
  end.

Fixpoint mismatches_from (i : N) (cs : list case) : list N :=
  match cs with
  | [] => []
  | c :: cs' => if check_case c then mismatches_from (i + 1) cs' else i :: mismatches_from (i + 1) cs'
  end.
Definition mismatches := mismatches_from 0.
