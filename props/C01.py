SPEC = {
    'id': 'C01',
    'properties_file': 'theories/Properties/C01.v',
    'properties_module': 'Properties.C01',
    'gen_files': [],
    'streams': [{
        'name': 'envelope', 'pkg': './pkg/secretstore', 'test': 'TestVerifC01',
        'files': [('pkg/secretstore', 'harness/secretstore/zz_verif_common_test.go'),
                  ('pkg/secretstore', 'harness/secretstore/zz_verif_c01_test.go')],
        'model_module': 'Model.C01_Envelope', 'imports': ['From Wesh Require Import Model.Store Model.C02_Ratchet.'], 'shard': 400, 'timeout': 900,
    }],
    'rule': 'per round (three group types): honest round trips for payloads of 0,1,2,63,64,65,1024,65536 and random sizes after '
            'reordered prefixes; every single-bit flip of the smallest envelope (sampled above the budget); field substitutions '
            'between envelopes and an envelope of another group; forgeries built with real keys by a fellow member who registered '
            'the sender\'s chain key (replay under another counter, missing / foreign / reused signature, wrong key, after delivery, '
            'beyond the window); the same fellow member on the push path (OutOfStoreMessageOpen with another payload under the key of a counter, naming the identifier of a message the receiver has or has not yet opened through the log: oracle only); every rejected substitution / forgery is presented again, twice, under the same CID (a rejection must leave nothing behind); non-trivial = every case except an in-order round trip; distinct = distinct case term',
    'trusted_base': [
        'Coq 8.16.1 kernel; vm_compute for evaluating the model on cases',
        'no axioms',
        'harness/secretstore/zz_verif_c01_test.go (+common, vharness): builds forged envelopes with real nacl/ed25519 keys and '
        'classifies each into the symbolic envelope the model evaluates',
        'modelled, not verified: XSalsa20-Poly1305 secretbox (opens iff same key and nonce), Ed25519 (verifies iff signer and '
        'payload match), HKDF chain (symbolic), protobuf',
    ],
    'assumptions': [
        'symbolic (Dolev-Yao) cryptography: any byte string that is not an honest ciphertext under a key opens to nothing',
        'a forged envelope has a CID different from every delivered one (collision resistance of the entry hash)',
    ],
}
