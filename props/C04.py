SPEC = {
    'id': 'C04',
    'properties_file': 'theories/Properties/C04.v',
    'properties_module': 'Properties.C04',
    'gen_files': ['theories/GenFacts/IndexFacts.v'],
    'allowed_axioms': ['functional_extensionality_dep'],
    'streams': [{
        'name': 'index', 'pkg': '.', 'test': 'TestVerifC04',
        'files': [('.', 'harness/root/zz_verif_meta_common_test.go'),
                  ('.', 'harness/root/zz_verif_c04_test.go')],
        'model_module': 'Model.C04_Index', 'imports': ['From Wesh Require Import Model.MetaLog Model.C04_Alias.'],
        'shard': 150, 'timeout': 1500,
    }],
    'rule': 'random histories (2-13 operations) of two devices of one account on their account group (the seven contact operations, '
            'enable/disable, seed reset, join/leave of two groups, credentials, device announcements) and of three devices of two '
            'accounts on a multi-member group (ownership claims, device announcements, secrets, payloads), and of the three devices of two accounts on the contact group they share (device announcements, alias keys, secrets, payloads; a device may publish its alias key before or without announcing itself), with random one-way '
            'synchronisations between the writers so that concurrent (causally unordered) entries arise; the union of the entries '
            'is delivered by the real replicator to fresh replicas: one batch, one batch then reopen, one by one in log order, newest '
            'first, every order for histories of <= 4 entries, random orders split into random batches with a reopen at a random '
            'step; after EVERY delivery step the getters are compared with the model fed with the successive contents of the '
            "replica's entry map (for contact groups also the alias keys: CAlias cases); the other getters of the store (ListDevices, ListMembers, GetDevicesForMember, ListOtherMembersDevices, ListAdmins, ListMultiMemberGroups, GetIncomingContactRequestsStatus, ListContactsByStatus) must agree with the ones the model is compared with; the writers' own sequence of indexes is compared too; non-trivial = log of >= 3 entries; "
            'distinct = history x delivery plan x step',
    'trusted_base': [
        'Coq 8.16.1 kernel; vm_compute for evaluating the model on cases',
        'translator gen/index.go (entry source and scan direction of UpdateIndex, its resets, first-wins shape of the handlers, arguments of sorting.Sort, entry source of both ListEvents; what the alias-key handler and its post-index action touch, when the action runs, whether its walk can stop early)',
        'axiom: Coq.Logic.FunctionalExtensionality.functional_extensionality_dep (standard library; states hold Coq functions as maps)',
        'harness/root/zz_verif_c04_test.go, harness/root/zz_verif_meta_common_test.go (replicas over one in-memory IPFS node, '
        'silent pubsub; entries opened by the real openMetadataEntry and translated to model events; numbering by first appearance)',
        'modelled, not verified: go-ipfs-log join/heads, go-orbit-db replicator and cache (exercised, their output order is an input of '
        'the model), event sealing/opening (C03); the alias keys have no getter, the harness reads the two index fields',
    ],
    'assumptions': ['a device is announced for one member only (dev_functional; what honest devices do)',
                    'entries that fail to open are skipped by the index',
                    'alias keys: latest = oldest only when the other member publishes one key (what ContactSendAliasKey does); C04_alias_oldest_stays_observation'],
}
