SPEC = {
    'id': 'C03',
    'properties_file': 'theories/Properties/C03.v',
    'properties_module': 'Properties.C03',
    'gen_files': ['theories/GenFacts/EventsFacts.v'],
    'allowed_axioms': ['functional_extensionality_dep'],
    'streams': [{
        'name': 'envelopes', 'pkg': '.', 'test': 'TestVerifC03',
        'files': [('.', 'harness/root/zz_verif_meta_common_test.go'),
                  ('.', 'harness/root/zz_verif_c04_test.go'),
                  ('.', 'harness/root/zz_verif_c03_test.go')],
        'model_module': 'Model.C03_Events', 'imports': [],
        'shard': 700, 'timeout': 1500,
    }],
    'rule': 'for every event type of eventTypesMapper, in an account group and in a multi-member group, with fresh random keys and '
            'generically filled payloads per round (3 rounds quick, 40 thorough): the honest envelope, a genuine event of another '
            'device, and the forgery catalogue - signature by another device / the group key / the member key where that is not '
            'the required signer, signer field swapped after signing, payload bit flips under the original signature, missing / '
            'truncated / bit-flipped signature, unknown type numbers 0, 3, 404, 9999, another group secret, ciphertext and nonce '
            'byte flips, nonce of the wrong length, a signer field that is no key, and for the member-device announcement a member '
            'signature by another member / over another device / missing, swapped member field, device signature by the member key; '
            'each is opened by the real openGroupEnvelope (verdict compared with the model) and every rejected one is appended to '
            'the log of a real MetadataStore and replicated to a second one: indexed state before = after on both, no '
            'EventMetadataReceived / GroupMetadataEvent for it (a sentinel honest event bounds the wait); '
            'non-trivial = every forgery; distinct = group kind x type x forgery x round',
    'trusted_base': [
        'Coq 8.16.1 kernel; vm_compute for evaluating the model on cases',
        'axiom: Coq.Logic.FunctionalExtensionality.functional_extensionality_dep (standard library; only in the theorem about the index, '
        'through the shared MetaLog development)',
        'translator gen/events.go (event type constants, eventTypesMapper table, Verify calls and verdict tests of the three checkers, '
        'the SigChecker call of openGroupEnvelope)',
        'harness/root/zz_verif_c03_test.go (hand-mapped symbolic form of each forgery), harness/root/zz_verif_meta_common_test.go',
        'modelled, not verified: Ed25519 (a signature verifies only under the key that made it over the bytes it was made over), '
        'nacl/secretbox (opens only under its key), protobuf decoding; the store-level cases (CStore) are decided by the harness '
        'oracle alone',
    ],
    'assumptions': ['symbolic cryptography',
                    'the event type is not covered by the signature: an envelope whose payload and signature are genuine for type X and '
                    'whose type field names a type Y with the same signer rule opens as Y (observation recorded in DESIGN.md; the '
                    'property as stated does not exclude it)'],
}
