import os
import vlib

def prepare(wd):
    """instrumented copies of the CURRENT queue sources (scheduling points before every lock /
    unlock / select), plus the scheduler package"""
    files = {}
    for f in ('simple.go', 'priority.go'):
        out = os.path.join(wd, 'inj_' + f)
        rc, log = vlib.sh([os.path.join(vlib.VERIF, 'bin', 'inject'), '-in', os.path.join(vlib.REPO, 'internal/queue', f), '-out', out])
        if rc != 0:
            raise RuntimeError('inject failed: ' + log)
        files['internal/queue/' + f] = out
    files['internal/vsched/vsched.go'] = os.path.join(vlib.VERIF, 'sched/vsched/vsched.go')
    files['internal/vsched/explore.go'] = os.path.join(vlib.VERIF, 'sched/vsched/explore.go')
    return files

SPEC = {
    'id': 'C15',
    'properties_file': 'theories/Properties/C15.v',
    'properties_module': 'Properties.C15',
    'gen_files': ['theories/GenFacts/QueueFacts.v'],
    'streams': [{
        'name': 'queue', 'pkg': './internal/queue', 'test': 'TestVerifC15',
        'files': [('internal/queue', 'harness/queue/zz_verif_c15_test.go')],
        'prepare': prepare,
        'model_module': 'Model.C15_Queue', 'shard': 150, 'timeout': 900,
    }, {
        'name': 'priority', 'pkg': './internal/queue', 'test': 'TestVerifC15PQ',
        'files': [('internal/queue', 'harness/queue/zz_verif_c15_test.go'), ('internal/queue', 'harness/queue/zz_verif_c15pq_test.go')],
        'prepare': prepare,
        'model_module': 'Model.C15_Queue', 'shard': 150, 'timeout': 900,
    }],
    'rule': 'stateless depth-first enumeration of the schedules of small scenarios (1-2 producers, 1-3 items, optional '
            'cancellation) on the real SimpleQueue instrumented at every lock/unlock/select, one case per schedule with the '
            'status vector of all threads after every step; plus random operation sequences on the real PriorityQueue; priority stream: several tasks (NextAll whose callback contains a scheduling point, Add, Next) on ONE real PriorityQueue instrumented at every mutex operation, every schedule of four small scenarios (up to 100 / 1500 each), replayed by the model with one atomic step per operation in the order in which the tasks passed the lock; oracle: nothing lost or handed out twice, every NextAll ascending; '
            'non-trivial = schedule with at least one pre-emption / sequence containing a pop; distinct = distinct case term',
    'trusted_base': [
        'Coq 8.16.1 kernel; vm_compute for evaluating the model on cases',
        'no axioms',
        'translator gen/queue.go (capacity of the signal channel, sync skeleton of Add/WaitForItem)',
        'sched/inject (AST rewriting that prefixes synchronisation operations with yields), sched/vsched (controller; '
        'blocked state read from runtime.Stack), harness/queue',
        'modelled, not verified: Go channel/select/mutex semantics, container/list, container/heap',
    ],
    'assumptions': [
        'one consumer per queue (as in MessageStore); any number of producers',
        'the Go scheduler eventually runs every runnable goroutine',
    ],
}
