SPEC = {
    'id': 'C11',
    'properties_file': 'theories/Properties/C11.v',
    'properties_module': 'Properties.C11',
    'gen_files': ['theories/GenFacts/KeystoreFacts.v'],
    'streams': [{
        'name': 'keys', 'pkg': './pkg/secretstore', 'test': 'TestVerifC11',
        'files': [('pkg/secretstore', 'harness/secretstore/zz_verif_common_test.go'),
                  ('pkg/secretstore', 'harness/secretstore/zz_verif_c11_test.go')],
        'model_module': 'Model.C11_Keys', 'shard': 100, 'timeout': 900,
    }, {
        'name': 'faults', 'pkg': './pkg/secretstore', 'test': 'TestVerifC11Fault',
        'files': [('pkg/secretstore', 'harness/secretstore/zz_verif_common_test.go'),
                  ('pkg/secretstore', 'harness/secretstore/zz_verif_c11_test.go'),
                  ('pkg/secretstore', 'harness/secretstore/zz_verif_c11fault_test.go')],
        'model_module': 'Model.C11_Keys', 'shard': 100, 'timeout': 600,
    }],
    'rule': 'fault stream (oracle only, beyond the stated quantifier, which has no failing reads: it holds on the unchanged tree and is kept because an identity must not change for such a reason): a store derives its identities, then every read of a second pass of the same derivations is made to fail in turn with an error that is not no-such-key, then the datastore works again; identities obtained during and after the fault must be those obtained before; concurrent first use (8 goroutines on a fresh store, oracle only: everyone is handed the keys the store keeps); random histories over 2-3 fresh real SecretStores (each on its own datastore, closed and reopened on it before about every fourth operation: a restart must be invisible): account / proof key, contact group with another store\'s account '
            '(both directions), member/device pairs in account, contact and multi-member groups, export, import of another store\'s '
            'export (plain, swapped, same key twice) at any point, malformed / empty / RSA / secp256k1 blobs; results are compared '
            'with the model up to renaming of keys (numbered by first appearance); non-trivial = history with a contact group, '
            'a multi-member member key or an import; distinct = case term',
    'trusted_base': [
        'Coq 8.16.1 kernel; vm_compute for evaluating the model on cases',
        'no axioms',
        'translator gen/keystore.go (lock operations and keystore reads/writes of every method of deviceKeystore, in source order)',
        'harness/secretstore/zz_verif_c11_test.go (canonical numbering of key material)',
        'modelled, not verified: X25519 agreement over converted Ed25519 keys (symbolic: unordered pair), HKDF (injective), '
        'the random source (fresh identifiers), go-ipfs-keystore',
    ],
    'assumptions': ['symbolic cryptography; distinct random draws are distinct'],
}
