import os
import vlib

CALLS = ('processMessageLoop.WaitForItem,processMessageLoop.processMessage,processMessageLoop.Add,getOrCreateDeviceCache.Add,'
         'processDeviceMessagesInQueue.NextAll,ProcessMessageQueueForDevicePK.Next,ProcessMessageQueueForDevicePK.Add')
ONLY = 'processMessageLoop,getOrCreateDeviceCache,processDeviceMessagesInQueue,ProcessMessageQueueForDevicePK'

def prepare(wd):
    out = os.path.join(wd, 'inj_store_message.go')
    rc, log = vlib.sh([os.path.join(vlib.VERIF, 'bin', 'inject'), '-in', os.path.join(vlib.REPO, 'store_message.go'), '-out', out,
                       '-only', ONLY, '-calls', CALLS, '-fields', 'hasKnownChainKey'])
    if rc != 0:
        raise RuntimeError('inject failed: ' + log)
    return {'store_message.go': out,
            'internal/vsched/vsched.go': os.path.join(vlib.VERIF, 'sched/vsched/vsched.go'),
            'internal/vsched/explore.go': os.path.join(vlib.VERIF, 'sched/vsched/explore.go'),
            'internal/vsched/notifycase.go': os.path.join(vlib.VERIF, 'sched/vsched/notifycase.go')}

SPEC = {
    'id': 'C08',
    'properties_file': 'theories/Properties/C08.v',
    'properties_module': 'Properties.C08',
    'gen_files': ['theories/GenFacts/PipelineFacts.v'],
    'allowed_axioms': [],
    'streams': [{
        'name': 'pipeline', 'pkg': '.', 'test': 'TestVerifC08',
        'files': [('.', 'harness/root/zz_verif_c08_test.go')],
        'prepare': prepare,
        'model_module': 'Model.C08_Pipeline', 'imports': [],
        'shard': 150, 'timeout': 1800,
    }, {
        'name': 'window', 'pkg': '.', 'test': 'TestVerifC08Window',
        'files': [('.', 'harness/root/zz_verif_c08_test.go'), ('.', 'harness/root/zz_verif_c08window_test.go')],
        'prepare': prepare,
        'model_module': 'Model.C08_Window', 'imports': [],
        'shard': 6, 'timeout': 1800,
    }],
    'rule': 'the real pipeline functions of store_message.go on a MessageStore assembled around real secret stores (real ratchets and '
            'sealed envelopes; no orbit-db), with arrival, consumer loop and registrar as threads of the controlled scheduler over '
            'scheduling points injected into the CURRENT store_message.go (lock/unlock of muDeviceCaches, and right before '
            'WaitForItem, the park, processMessage, the flush, the re-park); three small scenarios (1 message; 2 messages with the '
            'announcement between them; 2 messages in reverse order) explored depth-first up to 300 schedules each (10,000 thorough), '
            '250 (8,000) random schedules on random scenarios of 1-3 senders x 1-4 messages, announcement before / between / after / '
            'never, shuffled arrival and registration order, an entry arriving twice; every run ends when no thread can move '
            '(blocked state read from the goroutine dump); the schedule, translated to model steps, is replayed by the model and '
            'delivered events (order), queue, parked sets and consumer state are compared; oracle: every arrived entry the '
            'announcement opens was delivered, exactly once per arrival, with its payload and sender; '
            'non-trivial = at least one arrival and one registration; distinct = scenario x schedule; scripted scenarios: arrivals and the two halves of a registration (RegisterChainKey, flush) as ONE thread in a chosen order, so that an arrival (also of an undecryptable message) falls inside the registration window, 4 fixed + 40 (400) random scripts, 4 (12) schedules each; '
            'window stream (no controlled scheduler; model Model.C08_Window = the consumer loop over the ratchet WITH its key window, run on the same history: the delivered and parked counts each time the loop has come to rest after an arrival, the counters delivered at the end and what stays parked are compared, and the property oracle is evaluated as well): the real consumer loop on ONE sender with 1-140 messages (every other case more than the 100 precomputed keys), newest first / reverse / shuffled / a late block first / in order / the newest first and then ONE batch of older ones that ends with an entry which never opens (nothing else arrives), each entry handled before the next arrives or all at once, the key registered before a chosen arrival; at the end every message the announcement opens was delivered exactly once with its payload, and between paced arrivals every arrived entry is delivered or parked; 24 (400) cases',
    'trusted_base': [
        'Coq 8.16.1 kernel; vm_compute for evaluating the model on cases',
        'no axioms',
        'translator gen/pipeline.go (locks and calls of getOrCreateDeviceCache, ProcessMessageQueueForDevicePK and processMessageLoop in source order, writers of the chain-key flag, return statements)',
        'sched/inject (AST injector: scheduling points before mutex operations and before the listed calls), sched/vsched '
        '(controller; blocked state from runtime.Stack)',
        'harness/root/zz_verif_c08_test.go (hand-assembled MessageStore; translation of a schedule into model steps)',
        'modelled, not verified: internal/queue (atomic FIFO and priority queue here; C15), the secret store (a chain key opens '
        'the messages sealed after its announcement; C02), the libp2p event bus; the orbit-db store events that feed '
        'addToMessageQueue and the group context that calls ProcessMessageQueueForDevicePK are replaced by harness threads',
    ],
    'assumptions': ['one consumer loop per store; registrations are issued by one thread at a time (GroupContext handles metadata '
                    'events sequentially)',
                    'the scheduling model (Model.C08_Pipeline) has no key window: there a message opens iff its counter is not below the announcement; the key window is the subject of the sequential model Model.C08_Window (one consumer, registration = RegisterChainKey + flush), whose theorems hold for every window, history and number of devices; no transient secret-store error occurs in either'],
}
