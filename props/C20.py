SPEC = {
    'id': 'C20',
    'properties_file': 'theories/Properties/C20.v',
    'properties_module': 'Properties.C20',
    'gen_files': ['theories/GenFacts/RegistryFacts.v'],
    'allowed_axioms': [],
    'streams': [{
        'name': 'export', 'pkg': '.', 'test': 'TestVerifC20',
        'files': [('.', 'harness/root/zz_verif_meta_common_test.go'),
                  ('.', 'harness/root/zz_verif_c20_test.go')],
        'model_module': 'Model.C20_Export', 'imports': [],
        'shard': 40, 'timeout': 1500,
    }],
    'rule': 'random account histories on a real node (6 quick, 60 thorough): contact requests, seed reset, blocks, opened one-to-one groups of contacts that are then blocked / unblocked, up to two joined '
            'multi-member groups with metadata and messages and a second account writing concurrently and merged (several heads); '
            'exported by the real ServiceExportData handler (stub stream) around service.export; the archive is checked file by file (both private keys, every entry of every log '
            'byte-for-byte equal to the DAG node and hashing to its name, heads equal to the current heads); restored by the real '
            'RestoreAccountExport into fresh in-memory nodes without network: as exported (must give the same keys, entry sets, '
            'heads and MetadataStore getters for every group; the restored node then rebuilds its group registry the way a starting service does and must find every exported contact and multi-member group by its key), onto a store with an account, with entry bytes flipped / swapped '
            'between two entries / truncated, each key file missing / duplicated (adjacent, at the end) / empty / garbage, both key '
            'files holding the same key (all must be rejected), entries shuffled with heads after them and keys last, unknown extra '
            'files (must restore identically), an entry file duplicated; outcomes not fixed by the property (an entry file dropped, '
            'heads before entries: the restore waits forever) are compared with the model only; '
            'non-trivial = every mutation / exports with more than 4 files; distinct = history x mutation',
    'trusted_base': [
        'Coq 8.16.1 kernel; vm_compute for evaluating the model on cases',
        'no axioms',
        'translator gen/registry.go (reindexGroupDatastore: the listings that feed the group registry, the contact states listed)',
        'harness/root/zz_verif_c20_test.go (symbolic form of an archive: identifiers by first appearance, ancestors of an entry '
        'computed by walking the real parent links), harness/root/zz_verif_meta_common_test.go',
        'modelled, not verified: SHA-256/CID computation (content determines identifier and ancestors), tar framing, go-ipfs-log / '
        'go-orbit-db loading of heads in replication mode (exercised), ImportAccountKeys (C11)',
    ],
    'assumptions': ['exported logs are closed under parents and are the closure of their heads (what go-ipfs-log maintains)',
                    'the derived state is a function of the entry set (theorem C04_state_is_function_of_entry_set)'],
}
