SPEC = {
    'id': 'C14',
    'properties_file': 'theories/Properties/C14.v',
    'properties_module': 'Properties.C14',
    'gen_files': ['theories/GenFacts/ConstsFacts.v', 'theories/GenFacts/OutOfStoreFacts.v'],
    'streams': [{
        'name': 'push', 'pkg': './pkg/secretstore', 'test': 'TestVerifC14',
        'files': [('pkg/secretstore', 'harness/secretstore/zz_verif_common_test.go'),
                  ('pkg/secretstore', 'harness/secretstore/zz_verif_c14_test.go')],
        'model_module': 'Model.C14_Push', 'imports': ['From Wesh Require Import Model.Store Model.C02_Ratchet.'],
        'shard': 60, 'timeout': 900,
    }, {
        'name': 'concurrent', 'pkg': './pkg/secretstore', 'test': 'TestVerifC02Concurrent',
        'files': [('pkg/secretstore', 'harness/secretstore/zz_verif_common_test.go'),
                  ('pkg/secretstore', 'harness/secretstore/zz_verif_c14_test.go'),
                  ('pkg/secretstore', 'harness/secretstore/zz_verif_c02conc_test.go')],
        'model_module': 'Model.C14_Push', 'imports': ['From Wesh Require Import Model.Store Model.C02_Ratchet.'],
        'shard': 60, 'timeout': 600,
    }, {
        'name': 'service', 'pkg': '.', 'test': 'TestVerifC14Service',
        'files': [('.', 'harness/root/zz_verif_meta_common_test.go'),
                  ('.', 'harness/root/zz_verif_c14svc_test.go')],
        'model_module': 'Model.C14_Push', 'imports': ['From Wesh Require Import Model.Store Model.C02_Ratchet.'],
        'shard': 60, 'timeout': 900, 'search_n': 300,
    }],
    'rule': 'concurrent stream (oracle only, shared with C02): a log open and a push open of the same message at once on a store whose datastore delays every access at random: both must succeed and the window must have moved as for one opening; window stream: UpdateOutOfStoreGroupReferences on a fresh store for counters below N, near 2^64 and random, probing the '
            'stored references at and around both window edges; session stream: random sessions on a real SecretStore mixing '
            'registration, log delivery (followed by the reference update MessageStore performs) and push delivery of the same '
            'messages in every order, 1-2 senders, three group types, windows 1-3 with 1-4 references and the defaults 100/100, '
            'bit-flipped payloads and unknown group references; service stream: the same sessions through service.OutOfStoreSeal on a sender node with a real message store, MessageStore.processMessage on the receiver (log path, which moves the reference window itself) and service.OutOfStoreReceive (replies incl. AlreadyReceived, cid, group key), with bit-flipped and structurally altered payloads (fields cut, removed, extended); non-trivial = wrap-around window / every session; distinct = case term',
    'trusted_base': [
        'Coq 8.16.1 kernel; vm_compute for evaluating the model on cases',
        'no axioms',
        'translator gen/outofstore.go (OutOfStoreMessageOpen: initial value of the newly-decrypted flag, first key look-up, statements on hit and on miss, expression returned, lock/call skeleton)',
        'harness/secretstore/zz_verif_c14_test.go', 'harness/root/zz_verif_c14svc_test.go (hand-assembled service values around real stores)',
        'modelled, not verified: HKDF-SHA3 reference digest (symbolic: a reference is stored iff its counter is in the recorded window), '
        'secretbox, Ed25519, go-datastore',
    ],
    'assumptions': [
        'the reference set of a sender is represented by its recorded window (no datastore error while references are written)',
        'the log path calls UpdateOutOfStoreGroupReferences after a delivery, as MessageStore does',
    ],
}
