SPEC = {
    'id': 'C02',
    'properties_file': 'theories/Properties/C02.v',
    'properties_module': 'Properties.C02',
    'gen_files': ['theories/GenFacts/ConstsFacts.v', 'theories/GenFacts/SealFacts.v'],
    'streams': [{
        'name': 'ratchet', 'pkg': './pkg/secretstore', 'test': 'TestVerifC02',
        'files': [('pkg/secretstore', 'harness/secretstore/zz_verif_common_test.go'),
                  ('pkg/secretstore', 'harness/secretstore/zz_verif_c02_test.go')],
        'model_module': 'Model.C02_Ratchet', 'shard': 150, 'timeout': 900,
    }, {
        'name': 'concurrent', 'pkg': './pkg/secretstore', 'test': 'TestVerifC02Concurrent',
        'files': [('pkg/secretstore', 'harness/secretstore/zz_verif_common_test.go'),
                  ('pkg/secretstore', 'harness/secretstore/zz_verif_c02_test.go'),
                  ('pkg/secretstore', 'harness/secretstore/zz_verif_c02conc_test.go')],
        'model_module': 'Model.C02_Ratchet', 'shard': 150, 'timeout': 600,
    }],
    'rule': 'concurrent stream (oracle only): two deliveries of one sender at once on a store whose datastore delays every access at random (two log opens of two new messages, or a log open and a push open of the same message; window 2, registered at 0), then the message at the edge of the window c + window + opened must open, 150 (3000) rounds; histories of RegisterChainKey / OpenEnvelopePayload / IsChainKeyKnownForDevice on a fresh real SecretStore '
            '(window 1..4 with up to 7 messages of 1-2 senders, and the default window 100 with up to 300 messages); '
            'random histories and shuffled deliveries with retries and re-delivered announcements; thorough adds all '
            'sequences of length 6 over {open 1..4, register at 0, register at 1}; non-trivial = at least one failed '
            'open, one re-open or one repeated registration; distinct = distinct (window, op list, observed results)',
    'trusted_base': [
        'Coq 8.16.1 kernel; vm_compute for evaluating the model on cases',
        'no axioms',
        'harness/secretstore/zz_verif_c02_test.go (+common, vharness) and bin/check',
        'modelled, not verified: HKDF chain (symbolic: iterate index of a random origin), secretbox (opens iff same key), '
        'Ed25519 (verifies iff signer is the named device), go-datastore map semantics',
    ],
    'assumptions': [
        'messages are delivered with a defined CID (what MessageStore does)',
        'the receiver is not itself the sending device',
        'counters stay below 2^64 (no wrap-around within a history)',
    ],
}
