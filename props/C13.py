SPEC = {
    'id': 'C13',
    'properties_file': 'theories/Properties/C13.v',
    'properties_module': 'Properties.C13',
    'gen_files': ['theories/GenFacts/IndexFacts.v'],
    'allowed_axioms': ['functional_extensionality_dep'],
    'streams': [{
        'name': 'listing', 'pkg': '.', 'test': 'TestVerifC13',
        'files': [('.', 'harness/root/zz_verif_meta_common_test.go'),
                  ('.', 'harness/root/zz_verif_c04_test.go'),
                  ('.', 'harness/root/zz_verif_c13_test.go')],
        'model_module': 'Model.C13_Listing', 'imports': ['From Wesh Require Import Model.MetaLog.'],
        'shard': 500, 'timeout': 1500,
    }, {
        'name': 'rpc', 'pkg': '.', 'test': 'TestVerifC13RPC',
        'files': [('.', 'harness/root/zz_verif_meta_common_test.go'),
                  ('.', 'harness/root/zz_verif_c04_test.go'),
                  ('.', 'harness/root/zz_verif_c13_test.go'),
                  ('.', 'harness/root/zz_verif_c13rpc_test.go')],
        'model_module': 'Model.C13_Listing', 'imports': ['From Wesh Require Import Model.MetaLog.'],
        'shard': 500, 'timeout': 1500,
    }],
    'rule': 'logs of 0..12 entries (each length 4 times, alternately metadata store and message store of a multi-member group) written by two '
            'devices with random one-way synchronisations (concurrent entries); listed through MetadataStore.ListEvents / '
            'MessageStore.ListEvents on both writers as they are and on fresh replicas that received the union in one batch, in one '
            'batch then reopened, entry by entry in random order, and mixed; since and until range over nil, every entry and an '
            'unknown identifier, reverse over both values - exhaustively up to 5 entries and in the thorough tier, a 40% sample '
            'above; plus all 32 argument combinations of checkParametersConsistency; RPC stream: GroupMetadataList and GroupMessageList of a real service (in-process, stub stream) on 6 (60) groups of 1-5 messages and metadata events each, for every (since_id, until_id or until_now, reverse_order) incl. unknown identifiers (1/3 sample above 6 entries), the stream being closed by the client once the expected events (plus a grace period) were seen; non-trivial = log of >= 2 entries with a '
            'bound or reverse; distinct = history x replica x (since, until, reverse)',
    'trusted_base': [
        'Coq 8.16.1 kernel; vm_compute for evaluating the model on cases',
        'translator gen/index.go (entry source and scan direction of UpdateIndex, its resets, first-wins shape of the handlers, arguments of sorting.Sort, entry source of both ListEvents)',
        'axiom: Coq.Logic.FunctionalExtensionality.functional_extensionality_dep (standard library; only through the shared MetaLog '
        'development, the C13 theorems themselves are closed)',
        'harness/root/zz_verif_c13_test.go, harness/root/zz_verif_meta_common_test.go',
        'modelled, not verified: go-ipfs-log/go-orbit-db (replication, entry map), opening of entries (an entry that does not open is '
        'skipped by the listing; all entries of the harness open), the gRPC transport of the GroupMetadataList/GroupMessageList RPCs (called in-process)',
    ],
    'assumptions': ['identifiers are content hashes: distinct entries have distinct identifiers'],
}
