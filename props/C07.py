SPEC = {
    'id': 'C07',
    'properties_file': 'theories/Properties/C07.v',
    'properties_module': 'Properties.C07',
    'gen_files': ['theories/GenFacts/ContactsFacts.v'],
    'allowed_axioms': ['functional_extensionality_dep'],
    'streams': [{
        'name': 'lifecycle', 'pkg': '.', 'test': 'TestVerifC07',
        'files': [('.', 'harness/root/zz_verif_meta_common_test.go'),
                  ('.', 'harness/root/zz_verif_c07_test.go')],
        'model_module': 'Model.C07_Contacts', 'imports': ['From Wesh Require Import Model.MetaLog.'],
        'shard': 400, 'timeout': 1500,
    }],
    'rule': 'every sequence of the seven contact operations on one contact up to length 4 (5 thorough) and on two contacts up to '
            'length 3 (4 thorough), plus random sequences of 4-12 operations with malformed contacts (missing/short seed, '
            'missing/bad key), the account\'s own key, absent metadata and changing seeds, run on the real MetadataStore of a fresh '
            'account group (12 sequences per account, fresh contacts per sequence); accept/refuse results and the indexed record '
            '(state, metadata, seed, own metadata) of every contact are compared with the model after each sequence, the same record must be returned by GetContactFromGroupPK for the derived contact-group key and by ListContactsByStatus for exactly its state, and per '
            'account on a second device that replays the whole log in one batch and on the reopened group; '
            'non-trivial = sequence of >= 2 operations / every batch; distinct = operation sequence',
    'trusted_base': [
        'Coq 8.16.1 kernel; vm_compute for evaluating the model on cases',
        'axiom: Coq.Logic.FunctionalExtensionality.functional_extensionality_dep (standard library; states hold Coq functions as maps)',
        'translator gen/contacts.go (state guards, format and own-key tests of the seven operations as a table)',
        'harness/root/zz_verif_c07_test.go, harness/root/zz_verif_meta_common_test.go (replicas over one in-memory IPFS node, '
        'silent pubsub; numbering of keys, seeds and metadata by first appearance)',
        'modelled, not verified: signing/sealing of events and their opening (C03), go-ipfs-log append/join, go-orbit-db replication '
        'and cache, protobuf (empty bytes decode as nil)',
    ],
    'assumptions': ['events of the account group open successfully (honest writer)',
                    'the log of the writing device is totally ordered by its Lamport clock (single writer)'],
}
