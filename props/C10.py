SPEC = {
    'id': 'C10',
    'properties_file': 'theories/Properties/C10.v',
    'properties_module': 'Properties.C10',
    'gen_files': [],
    'streams': [{
        'name': 'crash', 'pkg': './pkg/secretstore', 'test': 'TestVerifC10',
        'files': [('pkg/secretstore', 'harness/secretstore/zz_verif_common_test.go'),
                  ('pkg/secretstore', 'harness/secretstore/zz_verif_c10_test.go')],
        'model_module': 'Model.C10_Crash', 'imports': ['From Wesh Require Import Model.Store Model.C02_Ratchet.'],
        'shard': 4, 'timeout': 1200,
    }, {
        'name': 'namedkeys', 'pkg': './pkg/secretstore', 'test': 'TestVerifC10Keys',
        'files': [('pkg/secretstore', 'harness/secretstore/zz_verif_common_test.go'),
                  ('pkg/secretstore', 'harness/secretstore/zz_verif_c10_test.go'),
                  ('pkg/secretstore', 'harness/secretstore/zz_verif_c10keys_test.go')],
        'model_module': 'Model.C10_Keys', 'imports': ['From Wesh Require Import Model.C11_Keys.'],
        'shard': 100, 'timeout': 600,
    }],
    'rule': 'named-keys stream: the names the keystore writes, in order, during the first use of a store (account keys imported or not; the group of each of the three kinds obtained, its member/device pair asked for, the account keys exported) compared with the sequence of puts of Model.C10_Keys (whose intermediate states are the states a stop can leave); workloads (scripted skeleton + random fill) of register / open / own-seal operations on a real SecretStore over a '
            'recording datastore (puts, deletes, atomic batch commits); the symbolic mutation sequence and result of every operation '
            'is compared with the model; then EVERY mutation index of the workload is taken as a crash point: restart on the '
            'replayed prefix and check the four recovery claims plus continued delivery; a workload is non-trivial when it has more '
            'mutations than operations; distinct = distinct case term',
    'trusted_base': [
        'Coq 8.16.1 kernel; vm_compute for evaluating the model on cases',
        'no axioms',
        'harness/secretstore/zz_verif_c10_test.go: recording/replaying datastore, symbolic translation of keys and values '
        '(HKDF chain re-derived with the package\'s own deriveNextKeys)',
        'modelled, not verified: go-datastore (a put/delete/batch commit is atomic and durable once it returns), HKDF, secretbox, Ed25519',
    ],
    'assumptions': [
        'messages are delivered with a defined CID (the undefined-CID variant of the API deletes the key without saving it, by design)',
        'a crash loses nothing that a completed datastore call had written, and nothing else',
    ],
}

def extra_coverage(cases):
    pts = sum((c.get('replay') or {}).get('mutations', 0) + 1 for c in cases)
    return {'crash_points_restarted': pts,
            'explanation': 'each case is one workload; every mutation index of it was a crash point with a restart of a real SecretStore'}
