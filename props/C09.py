import os
import vlib

def prepare(wd):
    out = os.path.join(wd, 'inj_secret_store_messages.go')
    rc, log = vlib.sh([os.path.join(vlib.VERIF, 'bin', 'inject'), '-in', os.path.join(vlib.REPO, 'pkg/secretstore/secret_store_messages.go'), '-out', out])
    if rc != 0:
        raise RuntimeError('inject failed: ' + log)
    return {'pkg/secretstore/secret_store_messages.go': out,
            'internal/vsched/vsched.go': os.path.join(vlib.VERIF, 'sched/vsched/vsched.go'),
            'internal/vsched/explore.go': os.path.join(vlib.VERIF, 'sched/vsched/explore.go'),
            'internal/vsched/notifycase.go': os.path.join(vlib.VERIF, 'sched/vsched/notifycase.go')}

SPEC = {
    'id': 'C09',
    'properties_file': 'theories/Properties/C09.v',
    'properties_module': 'Properties.C09',
    'gen_files': ['theories/GenFacts/SealFacts.v'],
    'streams': [{
        'name': 'seal', 'pkg': './pkg/secretstore', 'test': 'TestVerifC09',
        'files': [('pkg/secretstore', 'harness/secretstore/zz_verif_common_test.go'),
                  ('pkg/secretstore', 'harness/secretstore/zz_verif_gosched_test.go'),
                  ('pkg/secretstore', 'harness/secretstore/zz_verif_c09_test.go')],
        'prepare': prepare,
        'model_module': 'Model.C09_Seal', 'shard': 150, 'timeout': 900,
    }],
    'rule': 'controlled stream: schedules (depth-first, then random) of 2-3 concurrent senders x 1-2 messages on the real '
            'SecretStore with scheduling points at the message mutex and at every datastore read/write of the message-key '
            'namespaces, for the three group types, one case per schedule; stress stream: 16 goroutines x N messages with seeded '
            'random delays in every datastore access, a receiver opening every envelope; non-trivial = schedule with a '
            'pre-emption / any stress run; distinct = distinct case term; first-use stream: 40 (800) fresh stores, 2-6 tasks use a group nobody has used yet at once (PutGroup / GetShareableChainKey) and seal 1-4 messages each, with the seeded delays: counters exactly 1..n, stored counter n, no error',
    'trusted_base': [
        'Coq 8.16.1 kernel; vm_compute for evaluating the model on cases',
        'no axioms',
        'translator gen/seal.go (sync skeleton of SealEnvelope: lock taken before the first chain-key read, released on return; the same for getOwnDeviceChainKeyForGroup: look-up and creation of the own chain key in one critical section)',
        'sched/inject, sched/vsched, harness/secretstore (datastore wrapper with scheduling points / delays)',
        'modelled, not verified: Go mutex semantics, go-datastore',
    ],
    'assumptions': ['one device (one SecretStore instance) per chain key; counters below 2^64'],
}
