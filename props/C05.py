SPEC = {
    'id': 'C05',
    'properties_file': 'theories/Properties/C05.v',
    'properties_module': 'Properties.C05',
    'gen_files': ['theories/GenFacts/DistributionFacts.v'],
    'streams': [{
        'name': 'announcement', 'pkg': './pkg/secretstore', 'test': 'TestVerifC05',
        'files': [('pkg/secretstore', 'harness/secretstore/zz_verif_common_test.go'),
                  ('pkg/secretstore', 'harness/secretstore/zz_verif_c05_test.go')],
        'model_module': 'Model.C05_ChainKeyAnn', 'imports': ['From Wesh Require Import Model.Store.'],
        'shard': 600, 'timeout': 900,
    }, {
        'name': 'distribution', 'pkg': '.', 'test': 'TestVerifC05Dist',
        'files': [('.', 'harness/root/zz_verif_meta_common_test.go'),
                  ('.', 'harness/root/zz_verif_c05dist_test.go')],
        'model_module': 'Model.C05_Receive', 'imports': ['From Wesh Require Import Model.Store.'],
        'shard': 600, 'timeout': 900,
    }],
    'rule': 'per round: one account with two devices and two other accounts; the account group, two contact groups (which share '
            'device and member keys) and two multi-member groups; announcements made at three points of the sender\'s message '
            'history for every party; each announcement is opened in EVERY group by EVERY party (full wrong-recipient / wrong-group '
            'matrix), under two wrong claimed senders, and with every single-bit flip of one ciphertext; non-trivial = every '
            'combination other than the intended one; distinct = case term per round; distribution stream: 40 (800) scenarios of 2-3 accounts '
            '(the first with 1-2 devices) in one multi-member group with REAL GroupContexts (OpenGroup + ActivateGroupContext, i.e. the event loop of '
            'group_context.go), activations and one-way deliveries of metadata heads interleaved at random, then everything delivered to everybody '
            'until no log grows; the converged metadata log must be quiescent for the rule system of the model and every device must hold the chain '
            'key of every other device (IsChainKeyKnownForDevice on the real secret stores); every third scenario starts with a scripted history: a late second device of the first account is activated on a log PREFIX that holds the joining account\'s chain key but not yet its announcement (the harness waits for the store\'s asynchronous announcements before each scripted activation); deliveries of prefixes (an entry and its ancestors) besides heads; per device a second case: the log it held when it was activated, the entries that arrived afterwards and the keys it holds, replayed by the receiving-side model (Model/C05_Receive.v)',
    'trusted_base': [
        'Coq 8.16.1 kernel; vm_compute for evaluating the model on cases',
        'no axioms',
        'translator gen/distribution.go (statements of metadataStoreListSecrets, fillMessageKeysHolderUsingPreviousData, the chain-key case of handleGroupMetadataEvent and the rejections of getAndFilterGroupDeviceChainKeyAddedPayload, rendered as strings)',
        'harness/root/zz_verif_c05dist_test.go, harness/root/zz_verif_meta_common_test.go (replicas over one in-memory IPFS node, silent pubsub)',
        'harness/secretstore/zz_verif_c05_test.go (identifies keys and nonces by first appearance; chain values by re-deriving the HKDF chain)',
        'modelled, not verified: nacl box = X25519 + XSalsa20-Poly1305 (opens iff same agreement and nonce), Ed25519->X25519 conversion '
        '(identity on identifiers), HKDF',
    ],
    'assumptions': [
        'symbolic (Dolev-Yao) cryptography; X25519 agreement injective outside low-order points',
        'group ids that differ do so within their first 24 bytes (the nonce is a 24-byte prefix of the 32-byte id)',
        'distribution stream: event handling of GroupContext is asynchronous; the harness waits (up to 15 s) until no log grows for three rounds',
    ],
}
