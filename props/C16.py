import os
import vlib

def _inject(wd, rel, outname, extra=()):
    out = os.path.join(wd, outname)
    rc, log = vlib.sh([os.path.join(vlib.VERIF, 'bin', 'inject'), '-in', os.path.join(vlib.REPO, rel), '-out', out] + list(extra))
    if rc != 0:
        raise RuntimeError('inject failed: ' + log)
    return out

def _common(wd):
    return {'internal/notify/notify.go': _inject(wd, 'internal/notify/notify.go', 'inj_notify.go'),
            'internal/vsched/vsched.go': os.path.join(vlib.VERIF, 'sched/vsched/vsched.go'),
            'internal/vsched/explore.go': os.path.join(vlib.VERIF, 'sched/vsched/explore.go'),
            'internal/vsched/notifycase.go': os.path.join(vlib.VERIF, 'sched/vsched/notifycase.go')}

def prepare_root(wd):
    d = _common(wd)
    d['connectedness_manager.go'] = _inject(wd, 'connectedness_manager.go', 'inj_connectedness_manager.go')
    return d

def prepare_lifecycle(wd):
    d = _common(wd)
    d['pkg/lifecycle/manager.go'] = _inject(wd, 'pkg/lifecycle/manager.go', 'inj_manager.go', ['-only', 'UpdateState,WaitForStateChange'])
    return d

def prepare_tinder(wd):
    d = _common(wd)
    d['pkg/tinder/peer_cache.go'] = _inject(wd, 'pkg/tinder/peer_cache.go', 'inj_peer_cache.go', ['-only', 'UpdatePeer,WaitForPeerUpdate', '-skip', 'muPeers,muCache'])
    return d

SPEC = {
    'id': 'C16',
    'properties_file': 'theories/Properties/C16.v',
    'properties_module': 'Properties.C16',
    'gen_files': ['theories/GenFacts/NotifyFacts.v'],
    'streams': [{
        'name': 'connectedness', 'pkg': '.', 'test': 'TestVerifC16',
        'files': [('.', 'harness/root/zz_verif_c16_test.go')],
        'prepare': prepare_root,
        'model_module': 'Model.C16_Notify', 'shard': 120, 'timeout': 1500,
    }, {
        'name': 'devstream', 'pkg': '.', 'test': 'TestVerifC16Stream',
        'files': [('.', 'harness/root/zz_verif_c16stream_test.go')],
        'model_module': 'Model.C16_Notify', 'shard': 500, 'timeout': 900, 'search_n': 200,
    }, {
        'name': 'lifecycle', 'pkg': './pkg/lifecycle', 'test': 'TestVerifC16',
        'files': [('pkg/lifecycle', 'harness/lifecycle/zz_verif_c16_test.go')],
        'prepare': prepare_lifecycle,
        'model_module': 'Model.C16_Notify', 'shard': 120, 'timeout': 900,
    }, {
        'name': 'peercache', 'pkg': './pkg/tinder', 'test': 'TestVerifC16',
        'files': [('pkg/tinder', 'harness/tinder/zz_verif_c16_test.go')],
        'prepare': prepare_tinder,
        'model_module': 'Model.C16_Notify', 'shard': 120, 'timeout': 900,
    }],
    'rule': 'stateless depth-first enumeration of the schedules of small scenarios (1-2 waiters, one updater with '
            'associate/update sequences of length <= 3, optional cancellation) on the real, instrumented code, one case per '
            'schedule with the status vector after every step and the waiters\' results; non-trivial = at least one '
            'pre-emption; distinct = distinct case term; devstream: the real GroupDeviceStatus handler of a real service on a stub stream against random associate/update sequences with real parallelism (oracle only: the last reply per peer tells its final state)',
    'trusted_base': [
        'Coq 8.16.1 kernel; vm_compute for evaluating the model on cases',
        'no axioms',
        'translator gen/locks.go (lock-nesting edges and notify locker of each client file)',
        'sched/inject, sched/vsched (blocked state from runtime.Stack), harness drivers',
        'modelled, not verified: Go channel/select/mutex semantics, map iteration (results compared as sorted sets)',
    ],
    'assumptions': [
        'one group per waiter in the explored scenarios; the theorems are about one notify instance with two waiters and one updater',
        'the Go scheduler eventually runs every runnable goroutine',
    ],
}
