SPEC = {
    'id': 'C06',
    'properties_file': 'theories/Properties/C06.v',
    'properties_module': 'Properties.C06',
    'gen_files': ['theories/GenFacts/HandshakeFacts.v'],
    'streams': [{
        'name': 'handshake', 'pkg': './internal/handshake', 'test': 'TestVerifC06',
        'files': [('internal/handshake', 'harness/handshake/zz_verif_c06_test.go')],
        'model_module': 'Model.C06_Handshake', 'imports': ['From Wesh Require Import Gen.Handshake.'],
        'shard': 200, 'timeout': 1200,
    }, {
        'name': 'stall', 'pkg': './internal/handshake', 'test': 'TestVerifC06Stall',
        'files': [('internal/handshake', 'harness/handshake/zz_verif_c06_test.go'),
                  ('internal/handshake', 'harness/handshake/zz_verif_c06stall_test.go')],
        'model_module': 'Model.C06_Handshake', 'imports': ['From Wesh Require Import Gen.Handshake.'],
        'shard': 200, 'timeout': 600,
    }, {
        'name': 'crm', 'pkg': '.', 'test': 'TestVerifC06CRM',
        'files': [('.', 'harness/root/zz_verif_meta_common_test.go'),
                  ('.', 'harness/root/zz_verif_c06crm_test.go')],
        'model_module': 'Model.C06_Handshake', 'imports': ['From Wesh Require Import Gen.Handshake.'],
        'shard': 400, 'timeout': 900,
    }, {
        'name': 'outgoing', 'pkg': '.', 'test': 'TestVerifC06Outgoing',
        'files': [('.', 'harness/root/zz_verif_meta_common_test.go'),
                  ('.', 'harness/root/zz_verif_c06crm_test.go'),
                  ('.', 'harness/root/zz_verif_c06out_test.go')],
        'model_module': 'Model.C06_Handshake', 'imports': ['From Wesh Require Import Gen.Handshake.'],
        'shard': 400, 'timeout': 900, 'search_n': 20,
    }],
    'rule': 'per round (fresh account keys): honest run, wrong target, and an attack catalogue run against the real responder and the '
            'real requester over in-memory pipes: each of the 12 low-order / non-canonical X25519 encodings as ephemeral key on either '
            'side (with A\'s proof over the zero secret replayed when obtainable), cross-session replay and reflection of every recorded '
            'frame with and without the attacker being a legitimate party of the recorded session, bit flips / truncation / oversize, '
            'RSA and secp256k1 identity keys, foreign signatures, negative or missing acknowledge; non-trivial = every attack; '
            'distinct = case term per round; crm stream: the real handleIncomingRequest (responder handshake, then the peer\'s contact card) '
            'of a hand-assembled contactRequestsManager over the real account-group MetadataStore, driven through an in-memory pipe by a scripted peer '
            'with real keys, 6 (80) rounds x 10 scenarios: honest request with / without rendezvous seed, card naming another account / the '
            'receiving account, short seed, key that is no key, no card, garbage, handshake towards another account, card without handshake; '
            'observed: which key (if any) ends up recorded as a received request, with which metadata and seed; '
            'stall stream: both real roles over a pipe WITHOUT deadline, the honest opposite role behind a gate that lets its first n frames through '
            '(n = 0 .. all) and then holds everything back with the stream open; every case is watched for 12 s (40 s thorough, all cases at once): '
            'the role under test must not report success (the responder: a key or a nil error) unless the run was complete; still waiting or an error is '
            'what the model says (requester_vs_stalling / responder_vs_stalling)',
    'trusted_base': [
        'Coq 8.16.1 kernel; vm_compute for evaluating the model on cases',
        'no axioms',
        'translator gen/handshake.go (validation of the peer ephemeral key present in receivePeerEphemeralPubKey; order and guards of the steps of SendContactRequest and handleIncomingRequest; steps, guards and return statements of RequestUsingReaderWriter and ResponseUsingReaderWriter)',
        'harness/root/zz_verif_c06out_test.go (stub of the ipfs API handing out an in-memory pipe as the stream to the peer)',
        'harness/root/zz_verif_c06crm_test.go (hand-assembled contactRequestsManager; network.Stream stub over net.Pipe)',
        'harness/handshake/zz_verif_c06_test.go (scripted attacker with real keys; each attack is mapped by hand to the symbolic '
        'hello point and frame the model evaluates)',
        'modelled, not verified: X25519 (unordered pair of scalars; zero on low-order points), nacl box, SHA-256 key mixing, Ed25519, '
        'libp2p key (un)marshalling',
    ],
    'assumptions': ['symbolic (Dolev-Yao) cryptography; signatures unforgeable; fresh ephemeral scalars are fresh'],
}
