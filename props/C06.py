SPEC = {
    'id': 'C06',
    'properties_file': 'theories/Properties/C06.v',
    'properties_module': 'Properties.C06',
    'gen_files': ['theories/GenFacts/HandshakeFacts.v'],
    'streams': [{
        'name': 'handshake', 'pkg': './internal/handshake', 'test': 'TestVerifC06',
        'files': [('internal/handshake', 'harness/handshake/zz_verif_c06_test.go')],
        'model_module': 'Model.C06_Handshake', 'imports': ['From Wesh Require Import Gen.Handshake.'],
        'shard': 200, 'timeout': 1200,
    }],
    'rule': 'per round (fresh account keys): honest run, wrong target, and an attack catalogue run against the real responder and the '
            'real requester over in-memory pipes: each of the 12 low-order / non-canonical X25519 encodings as ephemeral key on either '
            'side (with A\'s proof over the zero secret replayed when obtainable), cross-session replay and reflection of every recorded '
            'frame with and without the attacker being a legitimate party of the recorded session, bit flips / truncation / oversize, '
            'RSA and secp256k1 identity keys, foreign signatures, negative or missing acknowledge; non-trivial = every attack; '
            'distinct = case term per round',
    'trusted_base': [
        'Coq 8.16.1 kernel; vm_compute for evaluating the model on cases',
        'no axioms',
        'translator gen/handshake.go (validation of the peer ephemeral key present in receivePeerEphemeralPubKey)',
        'harness/handshake/zz_verif_c06_test.go (scripted attacker with real keys; each attack is mapped by hand to the symbolic '
        'hello point and frame the model evaluates)',
        'modelled, not verified: X25519 (unordered pair of scalars; zero on low-order points), nacl box, SHA-256 key mixing, Ed25519, '
        'libp2p key (un)marshalling',
    ],
    'assumptions': ['symbolic (Dolev-Yao) cryptography; signatures unforgeable; fresh ephemeral scalars are fresh'],
}
