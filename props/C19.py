SPEC = {
    'id': 'C19',
    'properties_file': 'theories/Properties/C19.v',
    'properties_module': 'Properties.C19',
    'gen_files': ['theories/GenFacts/HandlersFacts.v'],
    'allowed_axioms': [],
    'streams': [{
        'name': 'requests', 'pkg': '.', 'test': 'TestVerifC19',
        'files': [('.', 'harness/root/zz_verif_meta_common_test.go'), ('.', 'harness/root/zz_verif_c19_test.go')],
        'model_module': 'Model.C19_Service', 'imports': [],
        'shard': 1500, 'timeout': 1500,
    }],
    'rule': 'a real service on an in-memory node (NewTestingProtocol) with some state (request reference, a multi-member group with a '
            'message and a metadata event, an outgoing contact request); every method of the gRPC service descriptor (unary through '
            'direct in-process calls, streaming with a stub stream and a 250 ms context) is invoked 3 times per round - the empty '
            'request and two requests whose fields are drawn per kind from nil / empty / 1-31, 32, 33-232, 64 random bytes, 64 KiB '
            'of zeros, known values (account, device, group keys, entry identifiers, contact key and seed, a marshalled contact and '
            'invitation, secret and signature) and one-bit damage of those; strings, enums, integers from edge sets; sub-messages '
            'nil / empty / filled - in 25 rounds (400 thorough) cycling through: all active, multi-member group deactivated, '
            'ACCOUNT GROUP deactivated, account group reactivated, group reactivated; each call runs under recover() with a 5 s '
            'watchdog; plus the exported helpers (cryptoutil AES-GCM/CTR, nonce/key conversion, DeriveKey, Group.IsValid, '
            'ShareableContact.CheckFormat, openGroupEnvelope, FilterGroupForReplication) on the same byte pool; '
            'non-trivial = non-empty request or a non-default service state; distinct = method x state x round x variant',
    'trusted_base': [
        'Coq 8.16.1 kernel; vm_compute for evaluating the model on cases',
        'no axioms',
        'translator gen/handlers.go (per exported *service method of api_*.go: uses of s.accountGroupCtx / s.getAccountGroup(), nil '
        'tests that return, panic calls; length guards of AESGCMDecrypt and AESCTRStream, of Group.GetSigningPrivKey and of the nonce of the OutOfStoreMessage functions)',
        'harness/root/zz_verif_c19_test.go (reflection over the service descriptor, protoreflect request filler, structural alterations of valid artefacts of the node, self-authenticating invitations with odd secrets)',
        'NOT modelled (runtime behaviour, exercised by the fuzzer only): nil/bounds safety of everything the handlers call '
        '(stores, secret store, orbit-db, ipfs), goroutines started by handlers, the gRPC transport (calls are in-process)',
    ],
    'assumptions': ['PARTIAL: crash-freedom is proved only for the two causes the model expresses (missing account group context, '
                    'explicit panic) and for the slice arithmetic of two helpers; everything else is testing, not proof'],
}
