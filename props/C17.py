import os, re
import vlib

OTHER_CLOCK_READS = ('time.NewTimer(', 'time.After(', 'time.Sleep(', 'time.NewTicker(', 'time.Tick(')

def prepare(wd):
    """instrumented copy of the CURRENT rotation.go: every wall-clock read goes to the fake clock"""
    src = open(os.path.join(vlib.REPO, 'pkg/rendezvous/rotation.go')).read()
    for k in OTHER_CLOCK_READS:
        if k in src:
            raise RuntimeError('rotation.go reads the clock through %s..., which the fake clock does not cover' % k)
    out = re.sub(r'\btime\.Now\(', 'vclockNow(', src)
    out = re.sub(r'\btime\.Until\(', 'vclockUntil(', out)
    out = re.sub(r'\btime\.Since\(', 'vclockSince(', out)
    out = re.sub(r'\btime\.AfterFunc\(', 'vclockAfterFunc(', out)
    p = os.path.join(wd, 'rotation_vclock.go')
    open(p, 'w').write(out)
    return {'pkg/rendezvous/rotation.go': p}

def prepare_marshaler(wd):
    """the same, plus the head-exchange marshaler of the root package"""
    d = prepare(wd)
    src = open(os.path.join(vlib.REPO, 'message_marshaler.go')).read()
    for k in OTHER_CLOCK_READS + ('time.AfterFunc(',):
        if k in src:
            raise RuntimeError('message_marshaler.go reads the clock through %s..., which the fake clock does not cover' % k)
    out = re.sub(r'\btime\.Now\(', 'rendezvous.VClockNow(', src)
    out = re.sub(r'\btime\.Until\(', 'rendezvous.VClockUntil(', out)
    out = re.sub(r'\btime\.Since\(', 'rendezvous.VClockSince(', out)
    if out != src:
        out += '\nvar _ = time.Now // keep the import used\n'
    p = os.path.join(wd, 'message_marshaler_vclock.go')
    open(p, 'w').write(out)
    d['message_marshaler.go'] = p
    return d

SPEC = {
    'id': 'C17',
    'properties_file': 'theories/Properties/C17.v',
    'properties_module': 'Properties.C17',
    'gen_files': ['theories/GenFacts/RotationFacts.v'],
    'streams': [{
        'name': 'rendezvous', 'pkg': './pkg/rendezvous', 'test': 'TestVerifC17',
        'files': [('pkg/rendezvous', 'harness/rendezvous/zz_verif_clock.go'),
                  ('pkg/rendezvous', 'harness/rendezvous/zz_verif_c17_test.go')],
        'prepare': prepare,
        'model_module': 'Model.C17_Rendezvous', 'imports': ['From Wesh Require Import Gen.Rotation.'], 'scope': 'Z_scope',
        'shard': 200, 'timeout': 600, 'search_n': 3000,
    }, {
        'name': 'marshaler', 'pkg': '.', 'test': 'TestVerifC17Marshaler',
        'files': [('pkg/rendezvous', 'harness/rendezvous/zz_verif_clock.go'),
                  ('.', 'harness/root/zz_verif_c17mm_test.go')],
        'prepare': prepare_marshaler,
        'model_module': 'Model.C17_Rendezvous', 'imports': ['From Wesh Require Import Gen.Rotation.'], 'scope': 'Z_scope',
        'shard': 100, 'timeout': 900, 'search_n': 600,
    }],
    'rule': 'pure stream: random instants (incl. exact period boundaries +-1 s, sub-second parts) and intervals for '
            'RoundTimePeriod/NextTimePeriod and determinism/sensitivity of GenerateRendezvousPointForPeriod; history stream: '
            'random histories of two RotationIntervals sharing a fake clock (register / resolve topic / exchange rotation value / '
            'explicit rotation value of previous-current-next period / clock advance to boundary-1ns, boundary, +1ns, across 1-2 '
            'periods, past the grace period); non-trivial = boundary instant, or a history with a clock advance, exchange, '
            'explicit rotation value or refused lookup; marshaler stream: the same histories through two OrbitDBMessageMarshalers of the root package (registration as storeForGroup does it, Marshal on one side / Unmarshal on the other, heads and sender device checked); distinct = distinct case term',
    'trusted_base': [
        'Coq 8.16.1 kernel; vm_compute for evaluating the model on cases',
        'no axioms',
        'translator gen/rotation.go (comparison operator of Point.IsExpired -> Gen/Rotation.v)',
        'harness/root/zz_verif_c17mm_test.go (head-exchange marshaler over the same fake clock)',
        'harness/rendezvous (fake clock substituted for time.Now/Until/Since/AfterFunc by textual rewriting of the current rotation.go and message_marshaler.go; any other clock read in them breaks the correspondence; timers run synchronously in creation order when the clock passes them)',
        'modelled, not verified: HMAC-SHA256 (symbolic, injective in key and message), package time',
    ],
    'assumptions': [
        'instants >= Unix epoch, interval a whole number of seconds >= 1 (Go integer division truncates toward zero before the epoch)',
        'RegisterRotation is called with the current time (what every caller in weshnet does)',
        'real timers fire on time (thorough real-time stream checks with 1-2 s intervals)',
    ],
}
