SPEC = {
    'id': 'C12',
    'properties_file': 'theories/Properties/C12.v',
    'properties_module': 'Properties.C12',
    'gen_files': ['theories/GenFacts/JoinFacts.v', 'theories/GenFacts/EventsFacts.v'],
    'allowed_axioms': [],
    'streams': [{
        'name': 'invitations', 'pkg': '.', 'test': 'TestVerifC12',
        'files': [('.', 'harness/root/zz_verif_meta_common_test.go'),
                  ('.', 'harness/root/zz_verif_c12_test.go')],
        'model_module': 'Model.C12_Invitations', 'imports': ['From Wesh Require Import Model.C03_Events.'],
        'shard': 500, 'timeout': 1500,
    }],
    'rule': 'per fresh multi-member invitation (3 quick, 30 thorough): GroupJoin on the real account-group MetadataStore for the valid '
            'invitation (accepted, one entry appended; refused when already a member), EVERY single-bit flip of identifier (256), '
            'secret (256) and signature (512), removal/truncation of each field, signature/identifier of another group, and '
            'substitution of the group type by Undefined, Account, Contact, 4 and 99; log length before/after each refusal; the '
            'member key the secret store hands out for the same group under each type, and the member announced on the real store '
            'of the joined group, compared with the account key; replication descriptors of 12 (120) random groups of the three '
            'types: secret fields and secret bytes absent from the marshalled descriptor, every metadata entry and message header '
            'of a real session in the group tried against it, access-controller addresses and the addresses of stores really '
            'opened by OpenGroupReplication on another node compared with the group\'s own, link keys compared; '
            'non-trivial = every mutation; distinct = invitation x mutation',
    'trusted_base': [
        'Coq 8.16.1 kernel; vm_compute for evaluating the model on cases',
        'no axioms',
        'translator gen/join.go (guards of GroupJoin, Verify call of Group.IsValid, case split of memberDeviceForGroup), gen/events.go',
        'harness/root/zz_verif_c12_test.go (hand-mapped symbolic form of each mutation)',
        'modelled, not verified: Ed25519, HKDF-SHA3 link key and Ed25519 public-key derivation (one-way constructors), nacl/secretbox, '
        'the orbit-db address computation (compared on real stores, not modelled beyond its inputs)',
    ],
    'assumptions': ['symbolic cryptography; a group secret is not the all-zero key',
                    'message payloads need the sender chain key, which is announced inside metadata events the descriptor cannot open'],
}
