package main

import (
	"fmt"
	"go/ast"
	"go/token"
	"strings"
)

// skeleton returns, in source order, the synchronisation operations of a function body.
func skeleton(fd *ast.FuncDecl) []string {
	var out []string
	if fd == nil || fd.Body == nil {
		return []string{"<missing>"}
	}
	var walk func(n ast.Node, deferred bool)
	lock := func(c *ast.CallExpr, deferred bool) bool {
		s, ok := c.Fun.(*ast.SelectorExpr)
		if !ok || len(c.Args) != 0 {
			return false
		}
		switch s.Sel.Name {
		case "Lock", "Unlock", "RLock", "RUnlock":
			p := ""
			if deferred {
				p = "defer "
			}
			out = append(out, p+strings.ToLower(s.Sel.Name)+" "+exprString(s.X))
			return true
		case "Broadcast", "Wait":
			out = append(out, strings.ToLower(s.Sel.Name)+" "+exprString(s.X))
			return false
		}
		return false
	}
	walk = func(n ast.Node, deferred bool) {
		ast.Inspect(n, func(m ast.Node) bool {
			switch x := m.(type) {
			case *ast.DeferStmt:
				if !lock(x.Call, true) {
					walk(x.Call, false)
				}
				return false
			case *ast.CallExpr:
				if lock(x, deferred) {
					return false
				}
				if id, ok := x.Fun.(*ast.Ident); ok && id.Name == "close" && len(x.Args) == 1 {
					out = append(out, "close "+exprString(x.Args[0]))
				}
			case *ast.SendStmt:
				out = append(out, "send "+exprString(x.Chan))
			case *ast.UnaryExpr:
				if x.Op == token.ARROW {
					out = append(out, "recv "+exprString(x.X))
				}
			case *ast.GoStmt:
				out = append(out, "go")
			case *ast.SelectStmt:
				var cs []string
				for _, c := range x.Body.List {
					cc := c.(*ast.CommClause)
					switch s := cc.Comm.(type) {
					case nil:
						cs = append(cs, "default")
					case *ast.SendStmt:
						cs = append(cs, "send "+exprString(s.Chan))
					case *ast.ExprStmt:
						if u, ok := s.X.(*ast.UnaryExpr); ok {
							cs = append(cs, "recv "+exprString(u.X))
						}
					case *ast.AssignStmt:
						if u, ok := s.Rhs[0].(*ast.UnaryExpr); ok {
							cs = append(cs, "recv "+exprString(u.X))
						}
					}
				}
				out = append(out, "select{"+strings.Join(cs, "|")+"}")
				for _, c := range x.Body.List {
					for _, b := range c.(*ast.CommClause).Body {
						walk(b, false)
					}
				}
				return false
			}
			return true
		})
	}
	walk(fd.Body, false)
	return out
}

// skeletonWithCalls is skeleton plus, in source order, the calls to the named helpers.
func skeletonWithCalls(fd *ast.FuncDecl, helpers []string) []string {
	if fd == nil || fd.Body == nil {
		return []string{"<missing>"}
	}
	want := map[string]bool{}
	for _, h := range helpers {
		want[h] = true
	}
	var out []string
	ast.Inspect(fd.Body, func(n ast.Node) bool {
		switch x := n.(type) {
		case *ast.DeferStmt:
			if s, ok := x.Call.Fun.(*ast.SelectorExpr); ok && len(x.Call.Args) == 0 {
				switch s.Sel.Name {
				case "Unlock", "RUnlock":
					out = append(out, "defer "+strings.ToLower(s.Sel.Name)+" "+exprString(s.X))
					return false
				}
			}
		case *ast.CallExpr:
			if s, ok := x.Fun.(*ast.SelectorExpr); ok {
				switch s.Sel.Name {
				case "Lock", "Unlock", "RLock", "RUnlock":
					if len(x.Args) == 0 {
						out = append(out, strings.ToLower(s.Sel.Name)+" "+exprString(s.X))
					}
				default:
					if want[s.Sel.Name] {
						out = append(out, "call "+s.Sel.Name)
					}
				}
			} else if id, ok := x.Fun.(*ast.Ident); ok && want[id.Name] {
				out = append(out, "call "+id.Name)
			}
		}
		return true
	})
	return out
}

func coqStrList(l []string) string {
	q := make([]string, len(l))
	for i, s := range l {
		q[i] = coqStr(s)
	}
	return "[" + strings.Join(q, "; ") + "]"
}

// chanCap finds `field: make(chan T[, n])` in the composite literal returned by a constructor.
func chanCap(fd *ast.FuncDecl, field string) (string, bool) {
	if fd == nil {
		return "", false
	}
	res, found := "", false
	ast.Inspect(fd, func(n ast.Node) bool {
		kv, ok := n.(*ast.KeyValueExpr)
		if !ok {
			return true
		}
		if id, ok := kv.Key.(*ast.Ident); !ok || id.Name != field {
			return true
		}
		c, ok := kv.Value.(*ast.CallExpr)
		if !ok {
			return true
		}
		if id, ok := c.Fun.(*ast.Ident); !ok || id.Name != "make" {
			return true
		}
		if len(c.Args) == 1 {
			res, found = "0", true
		} else if len(c.Args) == 2 {
			if bl, ok := c.Args[1].(*ast.BasicLit); ok && bl.Kind == token.INT {
				res, found = bl.Value, true
			}
		}
		return true
	})
	return res, found
}

func init() {
	extractors = append(extractors, func() {
		f := parse("internal/queue/simple.go")
		body := ""
		if c, ok := chanCap(funcDecl(f, "", "NewSimpleQueue"), "signal"); ok {
			body += fmt.Sprintf("(* simple.go NewSimpleQueue: signal: make(chan struct{}, %s) *)\nDefinition signal_capacity : N := %s.\n", c, c)
		} else {
			body += "(* simple.go: capacity of the signal channel not found as a literal *)\n"
		}
		body += "Definition skel_add : list string := " + coqStrList(skeleton(funcDecl(f, "SimpleQueue", "Add"))) + ".\n"
		body += "Definition skel_wait : list string := " + coqStrList(skeleton(funcDecl(f, "SimpleQueue", "WaitForItem"))) + ".\n"
		body += "Definition skel_pop : list string := " + coqStrList(skeleton(funcDecl(f, "SimpleQueue", "Pop"))) + ".\n"
		// priority.go: is every exported method ONE critical section of the queue mutex, from its first to its last statement?
		pf := parse("internal/queue/priority.go")
		var rows []string
		for _, m := range []string{"Add", "NextAll", "Next", "Size"} {
			rows = append(rows, "("+coqStr(m)+", "+coqStr(critSection(funcDecl(pf, "PriorityQueue", m)))+")")
		}
		body += "\n(* priority.go: per exported method, the mutex operations in source order, and whether the method is one critical\n   section from its first to its last statement (\"whole\") *)\n"
		body += "Definition pq_critical : list (string * string) := [" + strings.Join(rows, "; ") + "].\n"
		body += "Definition skel_pq_nextall : list string := " + coqStrList(skeleton(funcDecl(pf, "PriorityQueue", "NextAll"))) + ".\n"
		write("Queue.v", body)
	})
}

// critSection says "whole" when the body starts with X.Lock()/X.RLock(), the matching unlock is either deferred right
// after it or is the last statement (possibly followed by a bare return), and no other lock/unlock occurs in between;
// "partial" otherwise.
func critSection(fd *ast.FuncDecl) string {
	if fd == nil || fd.Body == nil || len(fd.Body.List) < 2 {
		return "missing"
	}
	call := func(st ast.Stmt) (recv, name string) {
		var e ast.Expr
		switch x := st.(type) {
		case *ast.ExprStmt:
			e = x.X
		case *ast.DeferStmt:
			e = x.Call
		}
		if c, ok := e.(*ast.CallExpr); ok {
			if se, ok := c.Fun.(*ast.SelectorExpr); ok {
				return exprString(se.X), se.Sel.Name
			}
		}
		return "", ""
	}
	l := fd.Body.List
	mu, first := call(l[0])
	if first != "Lock" && first != "RLock" {
		return "partial"
	}
	unlock := "Unlock"
	if first == "RLock" {
		unlock = "RUnlock"
	}
	count := 0
	ast.Inspect(fd.Body, func(n ast.Node) bool {
		if c, ok := n.(*ast.CallExpr); ok {
			if se, ok := c.Fun.(*ast.SelectorExpr); ok && exprString(se.X) == mu {
				switch se.Sel.Name {
				case "Lock", "RLock", "Unlock", "RUnlock":
					count++
				}
			}
		}
		return true
	})
	if count != 2 {
		return "partial"
	}
	if _, isDefer := l[1].(*ast.DeferStmt); isDefer {
		if r, n := call(l[1]); r == mu && n == unlock {
			return "whole"
		}
	}
	last := l[len(l)-1]
	if rs, ok := last.(*ast.ReturnStmt); ok && len(rs.Results) == 0 && len(l) >= 3 {
		last = l[len(l)-2]
	}
	if _, isDefer := last.(*ast.DeferStmt); !isDefer {
		if r, n := call(last); r == mu && n == unlock {
			return "whole"
		}
	}
	return "partial"
}
