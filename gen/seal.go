package main

// Gen/Seal.v — synchronisation skeleton of SecretStore.SealEnvelope and the datastore
// accesses (through helper calls) that lie between the lock and the return.
func init() {
	extractors = append(extractors, func() {
		f := parse("pkg/secretstore/secret_store_messages.go")
		body := "Definition skel_seal : list string := " + coqStrList(skeletonWithCalls(funcDecl(f, "secretStore", "SealEnvelope"),
			[]string{"getDeviceChainKeyForGroupAndDevice", "sealEnvelope", "deriveDeviceChainKey"})) + ".\n"
		body += "Definition skel_derive : list string := " + coqStrList(skeletonWithCalls(funcDecl(f, "secretStore", "deriveDeviceChainKey"),
			[]string{"preComputeNextKey", "updateCurrentKey"})) + ".\n"
		write("Seal.v", body)
	})
}
