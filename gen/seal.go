package main

import "go/ast"

// Gen/Seal.v — synchronisation skeleton of SecretStore.SealEnvelope and the datastore
// accesses (through helper calls) that lie between the lock and the return; the same for
// getOwnDeviceChainKeyForGroup (first use of a group: look-up and creation of the own chain key).
func init() {
	extractors = append(extractors, func() {
		f := parse("pkg/secretstore/secret_store_messages.go")
		body := "Definition skel_seal : list string := " + coqStrList(skeletonWithCalls(funcDecl(f, "secretStore", "SealEnvelope"),
			[]string{"getDeviceChainKeyForGroupAndDevice", "sealEnvelope", "deriveDeviceChainKey"})) + ".\n"
		body += "Definition skel_derive : list string := " + coqStrList(skeletonWithCalls(funcDecl(f, "secretStore", "deriveDeviceChainKey"),
			[]string{"preComputeNextKey", "updateCurrentKey"})) + ".\n"
		// first use: the own chain key is looked up and, if missing, created under ONE write lock
		body += "Definition skel_own_chain_key : list string := " + coqStrList(skeletonWithCalls(funcDecl(f, "secretStore", "getOwnDeviceChainKeyForGroup"),
			[]string{"getDeviceChainKeyForGroupAndDevice", "newDeviceChainKey", "registerChainKey"})) + ".\n"
		// which branch of registerChainKey a PUBLISHED announcement takes: the expression that decides "this is my own chain
		// key, store it as it is" in RegisterChainKey, and the call that passes it on; and the callers of registerChainKey
		ownFlag, passOn := "", ""
		if fd := funcDecl(f, "secretStore", "RegisterChainKey"); fd != nil && fd.Body != nil {
			ast.Inspect(fd.Body, func(n ast.Node) bool {
				switch x := n.(type) {
				case *ast.AssignStmt:
					if len(x.Lhs) == 1 && len(x.Rhs) == 1 && exprString(x.Lhs[0]) == "hasSecretBeenSentByCurrentDevice" {
						ownFlag = exprString(x.Rhs[0])
					}
				case *ast.CallExpr:
					if exprString(x.Fun) == "s.registerChainKey" && len(x.Args) > 0 {
						passOn = exprString(x.Args[len(x.Args)-1])
					}
				}
				return true
			})
		}
		var callers []string
		if f != nil {
			for _, d := range f.f.Decls {
				fd, ok := d.(*ast.FuncDecl)
				if !ok || fd.Body == nil {
					continue
				}
				ast.Inspect(fd.Body, func(n ast.Node) bool {
					if c, ok := n.(*ast.CallExpr); ok && exprString(c.Fun) == "s.registerChainKey" && len(c.Args) > 0 {
						callers = append(callers, fd.Name.Name+": "+exprString(c.Args[len(c.Args)-1]))
					}
					return true
				})
			}
		}
		body += "\n(* RegisterChainKey (an announcement read from the metadata log): what decides the store-as-it-is branch of\n   registerChainKey, the last argument of its call, and every caller of registerChainKey with that argument *)\n"
		body += "Definition register_public_own_test : string := " + coqStr(ownFlag) + ".\n"
		body += "Definition register_public_passes : string := " + coqStr(passOn) + ".\n"
		body += "Definition register_chain_key_callers : list string := " + coqStrList(callers) + ".\n"
		// the receive path: OpenEnvelopePayload is one critical section of the message mutex around the key look-up,
		// the opening and the bookkeeping that follows it
		openFd := funcDecl(f, "secretStore", "OpenEnvelopePayload")
		body += "\n(* OpenEnvelopePayload: mutex operations and the two helper calls in source order; is the method one critical section from\n   its first to its last statement? *)\n"
		body += "Definition skel_open : list string := " + coqStrList(skeletonWithCalls(openFd, []string{"openPayload", "postDecryptActions"})) + ".\n"
		body += "Definition open_critical : string := " + coqStr(critSection(openFd)) + ".\n"
		write("Seal.v", body)
	})
}
