package main

// Gen/Seal.v — synchronisation skeleton of SecretStore.SealEnvelope and the datastore
// accesses (through helper calls) that lie between the lock and the return; the same for
// getOwnDeviceChainKeyForGroup (first use of a group: look-up and creation of the own chain key).
func init() {
	extractors = append(extractors, func() {
		f := parse("pkg/secretstore/secret_store_messages.go")
		body := "Definition skel_seal : list string := " + coqStrList(skeletonWithCalls(funcDecl(f, "secretStore", "SealEnvelope"),
			[]string{"getDeviceChainKeyForGroupAndDevice", "sealEnvelope", "deriveDeviceChainKey"})) + ".\n"
		body += "Definition skel_derive : list string := " + coqStrList(skeletonWithCalls(funcDecl(f, "secretStore", "deriveDeviceChainKey"),
			[]string{"preComputeNextKey", "updateCurrentKey"})) + ".\n"
		// first use: the own chain key is looked up and, if missing, created under ONE write lock
		body += "Definition skel_own_chain_key : list string := " + coqStrList(skeletonWithCalls(funcDecl(f, "secretStore", "getOwnDeviceChainKeyForGroup"),
			[]string{"getDeviceChainKeyForGroupAndDevice", "newDeviceChainKey", "registerChainKey"})) + ".\n"
		write("Seal.v", body)
	})
}
