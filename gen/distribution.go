package main

import (
	"go/ast"
	"strings"
)

// Gen/Distribution.v — group_context.go, how a device registers the chain keys addressed to its
// member: the history path (metadataStoreListSecrets: conditions under which an entry of the log
// is skipped; fillMessageKeysHolderUsingPreviousData: what is done with each entry kept) and the
// live path (the chain-key case of handleGroupMetadataEvent: the statements in source order, the
// errors of the filter that make it return without registering), and the rejections of the
// filter getAndFilterGroupDeviceChainKeyAddedPayload (group.go).
func init() {
	extractors = append(extractors, func() {
		f := parse("group_context.go")
		// conditions of `if c { ...; continue }` directly inside the range loop, in order; other
		// statements of the loop by kind
		var skips, loopRest []string
		if fd := funcDecl(f, "GroupContext", "metadataStoreListSecrets"); fd != nil && fd.Body != nil {
			for _, st := range fd.Body.List {
				rs, ok := st.(*ast.RangeStmt)
				if !ok {
					continue
				}
				for _, b := range rs.Body.List {
					if is, ok := b.(*ast.IfStmt); ok && len(is.Body.List) > 0 {
						if br, ok := is.Body.List[len(is.Body.List)-1].(*ast.BranchStmt); ok && br.Tok.String() == "continue" {
							skips = append(skips, exprString(is.Cond))
							continue
						}
					}
					loopRest = append(loopRest, stmtHead(b))
				}
			}
		}
		var fill []string
		if fd := funcDecl(f, "GroupContext", "fillMessageKeysHolderUsingPreviousData"); fd != nil && fd.Body != nil {
			for _, st := range fd.Body.List {
				fill = append(fill, stmtHead(st))
				if rs, ok := st.(*ast.RangeStmt); ok {
					for _, b := range rs.Body.List {
						fill = append(fill, "  "+stmtHead(b))
					}
				}
			}
		}
		var live, liveIgnored []string
		if fd := funcDecl(f, "GroupContext", "handleGroupMetadataEvent"); fd != nil && fd.Body != nil {
			ast.Inspect(fd.Body, func(n ast.Node) bool {
				cc, ok := n.(*ast.CaseClause)
				if !ok || len(cc.List) != 1 || !strings.HasSuffix(exprString(cc.List[0]), "EventTypeGroupDeviceChainKeyAdded") {
					return true
				}
				for _, st := range cc.Body {
					live = append(live, stmtHead(st))
					if sw, ok := st.(*ast.SwitchStmt); ok {
						for _, c := range sw.Body.List {
							k := c.(*ast.CaseClause)
							returnsNil := false
							for _, s := range k.Body {
								if r, ok := s.(*ast.ReturnStmt); ok && len(r.Results) == 1 && exprString(r.Results[0]) == "nil" {
									returnsNil = true
								}
							}
							if returnsNil {
								for _, e := range k.List {
									liveIgnored = append(liveIgnored, exprString(e))
								}
							}
						}
					}
				}
				return false
			})
		}
		g := parse("group.go")
		var rejects []string
		if fd := funcDecl(g, "", "getAndFilterGroupDeviceChainKeyAddedPayload"); fd != nil && fd.Body != nil {
			for _, st := range fd.Body.List {
				if is, ok := st.(*ast.IfStmt); ok && len(is.Body.List) > 0 {
					if r, ok := is.Body.List[len(is.Body.List)-1].(*ast.ReturnStmt); ok && len(r.Results) == 3 {
						c := exprString(is.Cond)
						if is.Init != nil {
							if as, ok := is.Init.(*ast.AssignStmt); ok && len(as.Rhs) == 1 {
								c = exprString(as.Rhs[0]) + " ; " + c
							}
						}
						rejects = append(rejects, c+" => "+exprString(r.Results[2]))
					}
				}
			}
		}
		body := "(* group_context.go metadataStoreListSecrets: conditions under which an entry of the log is skipped, in order; the other statements of the loop *)\n"
		body += "Definition scan_skips : list string := " + coqStrList(skips) + ".\n"
		body += "Definition scan_loop_rest : list string := " + coqStrList(loopRest) + ".\n\n"
		body += "(* fillMessageKeysHolderUsingPreviousData: statements, those of its loop indented *)\n"
		body += "Definition fill_steps : list string := " + coqStrList(fill) + ".\n\n"
		body += "(* handleGroupMetadataEvent, case EventTypeGroupDeviceChainKeyAdded: statements in order; the filter errors on which it returns nil *)\n"
		body += "Definition live_chain_key_steps : list string := " + coqStrList(live) + ".\n"
		body += "Definition live_ignored_errors : list string := " + coqStrList(liveIgnored) + ".\n\n"
		body += "(* group.go getAndFilterGroupDeviceChainKeyAddedPayload: condition => error, in order *)\n"
		body += "Definition filter_rejects : list string := " + coqStrList(rejects) + ".\n"
		// ActivateGroupContext: the calls that matter for "which entries does the device get to see", in source order
		// (calls inside the goroutines it starts included)
		var act []string
		if fd := funcDecl(f, "GroupContext", "ActivateGroupContext"); fd != nil && fd.Body != nil {
			ast.Inspect(fd.Body, func(n ast.Node) bool {
				if c, ok := n.(*ast.CallExpr); ok {
					name := ""
					switch f := c.Fun.(type) {
					case *ast.SelectorExpr:
						name = f.Sel.Name
					case *ast.Ident:
						name = f.Name
					}
					switch name {
					case "Subscribe", "handleGroupMetadataEvent", "fillMessageKeysHolderUsingPreviousData", "sendSecretsToExistingMembers", "AddDeviceToGroup":
						act = append(act, name)
					}
				}
				return true
			})
		}
		body += "\n(* ActivateGroupContext: subscription to new metadata events, the live handler, the scan of the log as it stands,\n   the announcements to existing members and the own device announcement, in source order *)\n"
		body += "Definition activate_order : list string := " + coqStrList(act) + ".\n"
		write("Distribution.v", body)
	})
}

// stmtHead is a one-line rendering of a statement: the expression for expression statements and
// assignments, the header for if / for / switch / range, "return e" for returns.
func stmtHead(s ast.Stmt) string {
	switch x := s.(type) {
	case *ast.ExprStmt:
		return exprString(x.X)
	case *ast.AssignStmt:
		var l, r []string
		for _, e := range x.Lhs {
			l = append(l, exprString(e))
		}
		for _, e := range x.Rhs {
			r = append(r, exprString(e))
		}
		return strings.Join(l, ", ") + " " + x.Tok.String() + " " + strings.Join(r, ", ")
	case *ast.IfStmt:
		h := "if "
		if x.Init != nil {
			h += stmtHead(x.Init) + "; "
		}
		return h + exprString(x.Cond)
	case *ast.SwitchStmt:
		h := "switch "
		if x.Tag != nil {
			h += exprString(x.Tag)
		}
		return h
	case *ast.RangeStmt:
		return "range " + exprString(x.X)
	case *ast.ReturnStmt:
		var r []string
		for _, e := range x.Results {
			r = append(r, exprString(e))
		}
		return "return " + strings.Join(r, ", ")
	case *ast.GoStmt:
		return "go " + exprString(x.Call)
	case *ast.DeferStmt:
		return "defer " + exprString(x.Call)
	case *ast.BranchStmt:
		return x.Tok.String()
	case *ast.DeclStmt:
		return "decl"
	case *ast.ForStmt:
		return "for"
	case *ast.BlockStmt:
		return "block"
	}
	return "stmt"
}
