package main

import (
	"fmt"
	"go/ast"
	"go/token"
	"strings"
)

// Gen/Index.v — the shape of metadataStoreIndex.UpdateIndex (where the entries come from, the
// direction of the scan, what is reset), of sortedLogEntries (the order), and for every handler
// whether it is "first event seen wins" (returns at once when its subject is already indexed).
func init() {
	extractors = append(extractors, func() {
		idx := parse("store_metadata_index.go")
		utl := parse("store_utils.go")
		body := ""
		// UpdateIndex
		src, newestFirst := "", false
		var resets []string
		if fd := funcDecl(idx, "metadataStoreIndex", "UpdateIndex"); fd != nil && fd.Body != nil {
			for _, st := range fd.Body.List {
				switch x := st.(type) {
				case *ast.AssignStmt:
					if len(x.Lhs) == 1 && len(x.Rhs) == 1 {
						l := exprString(x.Lhs[0])
						if l == "entries" {
							src = exprString(x.Rhs[0])
						}
						if strings.HasPrefix(l, "m.") {
							resets = append(resets, strings.TrimPrefix(l, "m."))
						}
					}
				case *ast.ForStmt:
					// for i := len(entries) - 1; i >= 0; i--
					if x.Init != nil && x.Post != nil {
						init := ""
						if as, ok := x.Init.(*ast.AssignStmt); ok && len(as.Rhs) == 1 {
							init = exprString(as.Rhs[0])
						}
						post := ""
						if id, ok := x.Post.(*ast.IncDecStmt); ok && id.Tok == token.DEC {
							post = "dec"
						}
						if strings.HasPrefix(strings.ReplaceAll(init, " ", ""), "len(entries)-1") && post == "dec" {
							newestFirst = true
						}
					}
				}
			}
		}
		body += "(* store_metadata_index.go UpdateIndex: source of the entries, scan from the last to the first, fields reset before the scan *)\n"
		body += "Definition index_entries_source : string := " + coqStr(src) + ".\n"
		body += fmt.Sprintf("Definition index_scans_newest_first : bool := %v.\n", newestFirst)
		body += "Definition index_resets : list string := " + coqStrList(resets) + ".\n\n"
		// sortedLogEntries
		order := ""
		if fd := funcDecl(utl, "", "sortedLogEntries"); fd != nil && fd.Body != nil {
			ast.Inspect(fd.Body, func(n ast.Node) bool {
				if c, ok := n.(*ast.CallExpr); ok && exprString(c.Fun) == "sorting.Sort" {
					var as []string
					for _, a := range c.Args {
						as = append(as, exprString(a))
					}
					order = strings.Join(as, ", ")
				}
				return true
			})
		}
		body += "(* store_utils.go sortedLogEntries: arguments of sorting.Sort *)\n"
		body += "Definition sorted_entries_order : string := " + coqStr(order) + ".\n\n"
		// ListEvents sources
		var lsrc []string
		for _, ff := range []struct{ file, recv string }{{"store_metadata.go", "MetadataStore"}, {"store_message.go", "MessageStore"}} {
			f := parse(ff.file)
			if fd := funcDecl(f, ff.recv, "ListEvents"); fd != nil && fd.Body != nil {
				ast.Inspect(fd.Body, func(n ast.Node) bool {
					if c, ok := n.(*ast.CallExpr); ok && exprString(c.Fun) == "getEntriesInRange" && len(c.Args) > 0 {
						lsrc = append(lsrc, exprString(c.Args[0]))
					}
					return true
				})
			}
		}
		body += "(* ListEvents of both stores: the entry list handed to getEntriesInRange *)\n"
		body += "Definition list_events_sources : list string := " + coqStrList(lsrc) + ".\n\n"
		// handlers: first statement(s) contain `if _, ok := m.X[...]; ok { return nil }` or `if m.X != nil { return nil }`
		var rows []string
		if idx != nil {
			for _, d := range idx.f.Decls {
				fd, ok := d.(*ast.FuncDecl)
				if !ok || fd.Body == nil || !strings.HasPrefix(fd.Name.Name, "handle") {
					continue
				}
				firstWins := false
				prevLookup := false
				for _, st := range fd.Body.List {
					if as, ok := st.(*ast.AssignStmt); ok && len(as.Rhs) == 1 && len(as.Lhs) == 2 && exprString(as.Lhs[1]) == "ok" {
						if ix, ok := as.Rhs[0].(*ast.IndexExpr); ok && strings.HasPrefix(exprString(ix.X), "m.") {
							prevLookup = true
							continue
						}
					}
					wasLookup := prevLookup
					prevLookup = false
					is, ok := st.(*ast.IfStmt)
					if !ok || len(is.Body.List) == 0 {
						continue
					}
					r, ok := is.Body.List[len(is.Body.List)-1].(*ast.ReturnStmt)
					if !ok || len(r.Results) != 1 || exprString(r.Results[0]) != "nil" {
						continue
					}
					cond := exprString(is.Cond)
					if cond == "ok" && is.Init == nil && wasLookup {
						firstWins = true
					}
					if cond == "ok" && is.Init != nil {
						if as, ok := is.Init.(*ast.AssignStmt); ok && len(as.Rhs) == 1 {
							if ix, ok := as.Rhs[0].(*ast.IndexExpr); ok && strings.HasPrefix(exprString(ix.X), "m.") {
								firstWins = true
							}
						}
					}
					if strings.HasPrefix(cond, "m.") && strings.HasSuffix(cond, "!=nil") {
						firstWins = true
					}
				}
				rows = append(rows, fmt.Sprintf("(%s, %v)", coqStr(fd.Name.Name), firstWins))
			}
		}
		body += "(* handlers of the index: (name, returns at once when its subject is already indexed) *)\n"
		body += "Definition index_handlers : list (string * bool) :=\n  [" + strings.Join(rows, ";\n   ") + "].\n"
		// alias keys: what the handler touches, what the post-index action touches, when it runs
		mfields := func(recv, name string) []string {
			var out []string
			seen := map[string]bool{}
			if fd := funcDecl(idx, recv, name); fd != nil && fd.Body != nil {
				ast.Inspect(fd.Body, func(n ast.Node) bool {
					if se, ok := n.(*ast.SelectorExpr); ok {
						if id, ok := se.X.(*ast.Ident); ok && id.Name == "m" && se.Sel.Name != "logger" && !seen[se.Sel.Name] {
							seen[se.Sel.Name] = true
							out = append(out, se.Sel.Name)
						}
					}
					return true
				})
			}
			return out
		}
		postAfterScan := false
		if fd := funcDecl(idx, "metadataStoreIndex", "UpdateIndex"); fd != nil && fd.Body != nil {
			scanSeen := false
			for _, st := range fd.Body.List {
				switch x := st.(type) {
				case *ast.ForStmt:
					scanSeen = true
				case *ast.RangeStmt:
					if scanSeen && exprString(x.X) == "m.postIndexActions" {
						postAfterScan = true
					}
				}
			}
		}
		var actions []string
		if idx != nil {
			ast.Inspect(idx.f, func(n ast.Node) bool {
				if as, ok := n.(*ast.AssignStmt); ok && len(as.Lhs) == 1 && len(as.Rhs) == 1 && exprString(as.Lhs[0]) == "m.postIndexActions" {
					if cl, ok := as.Rhs[0].(*ast.CompositeLit); ok {
						for _, e := range cl.Elts {
							actions = append(actions, exprString(e))
						}
					}
				}
				return true
			})
		}
		body += "\n(* alias keys: fields of the index the handler of ContactAliasKeyAdded touches, fields and methods its post-index action touches,\n   the post-index actions, and whether UpdateIndex runs them after the scan loop *)\n"
		body += "Definition alias_handler_touches : list string := " + coqStrList(mfields("metadataStoreIndex", "handleContactAliasKeyAdded")) + ".\n"
		body += "Definition alias_post_action_touches : list string := " + coqStrList(mfields("metadataStoreIndex", "postHandlerSentAliases")) + ".\n"
		body += "Definition post_index_actions : list string := " + coqStrList(actions) + ".\n"
		body += fmt.Sprintf("Definition post_actions_run_after_scan : bool := %v.\n", postAfterScan)
		// does the walk over the queue ever stop (return) before its end?
		walkReturns := false
		if fd := funcDecl(idx, "metadataStoreIndex", "postHandlerSentAliases"); fd != nil && fd.Body != nil {
			for _, st := range fd.Body.List {
				if rs, ok := st.(*ast.RangeStmt); ok {
					ast.Inspect(rs.Body, func(n ast.Node) bool {
						if _, ok := n.(*ast.ReturnStmt); ok {
							walkReturns = true
						}
						return true
					})
				}
			}
		}
		body += fmt.Sprintf("Definition alias_walk_can_stop_early : bool := %v.\n", walkReturns)
		write("Index.v", body)
	})
}
