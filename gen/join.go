package main

import (
	"go/ast"
	"strings"
)

// Gen/Join.v — the guards of MetadataStore.GroupJoin (conditions of the `if` statements that
// return before the event is appended, in order) and the signature verification of Group.IsValid
// (key source, signed bytes, signature).
func init() {
	extractors = append(extractors, func() {
		f := parse("store_metadata.go")
		var guards []string
		appendAfter := false
		if fd := funcDecl(f, "MetadataStore", "GroupJoin"); fd != nil && fd.Body != nil {
			for _, st := range fd.Body.List {
				switch x := st.(type) {
				case *ast.IfStmt:
					c := exprString(x.Cond)
					if x.Init != nil {
						if as, ok := x.Init.(*ast.AssignStmt); ok && len(as.Rhs) == 1 {
							c = exprString(as.Rhs[0]) + " ; " + c
						}
					}
					returns := false
					if len(x.Body.List) > 0 {
						_, returns = x.Body.List[len(x.Body.List)-1].(*ast.ReturnStmt)
					}
					if returns {
						guards = append(guards, c)
					}
				case *ast.ReturnStmt:
					if len(x.Results) > 0 && strings.Contains(exprString(x.Results[0]), "attributeSignAndAddEvent") {
						appendAfter = true
					}
				}
			}
		}
		body := "(* store_metadata.go GroupJoin: conditions under which it returns before appending, in order *)\n"
		body += "Definition group_join_guards : list string := " + coqStrList(guards) + ".\n"
		if appendAfter {
			body += "Definition group_join_appends_last : bool := true.\n\n"
		} else {
			body += "Definition group_join_appends_last : bool := false.\n\n"
		}
		g := parse("pkg/protocoltypes/group.go")
		var verifs []string
		oktests := 0
		if fd := funcDecl(g, "Group", "IsValid"); fd != nil && fd.Body != nil {
			src := map[string]string{}
			ast.Inspect(fd.Body, func(n ast.Node) bool {
				switch x := n.(type) {
				case *ast.AssignStmt:
					if len(x.Rhs) == 1 && len(x.Lhs) > 0 {
						if c, ok := x.Rhs[0].(*ast.CallExpr); ok {
							src[exprString(x.Lhs[0])] = exprString(c.Fun)
						}
					}
				case *ast.CallExpr:
					fn := exprString(x.Fun)
					if strings.HasSuffix(fn, ".Verify") && len(x.Args) == 2 {
						recv := strings.TrimSuffix(fn, ".Verify")
						if s, ok := src[recv]; ok {
							recv = s
						}
						verifs = append(verifs, "("+coqStr(recv)+", "+coqStr(exprString(x.Args[0]))+", "+coqStr(exprString(x.Args[1]))+")")
					}
				case *ast.IfStmt:
					if exprString(x.Cond) == "!ok" && len(x.Body.List) == 1 {
						if r, ok := x.Body.List[0].(*ast.ReturnStmt); ok && len(r.Results) == 1 && exprString(r.Results[0]) != "nil" {
							oktests++
						}
					}
				}
				return true
			})
		}
		body += "(* group.go IsValid: (key source, signed bytes, signature) of every Verify call; `if !ok { return error }` tests *)\n"
		body += "Definition is_valid_verifies : list (string * string * string) := [" + strings.Join(verifs, "; ") + "].\n"
		body += "Definition is_valid_ok_tests : nat := " + itoa(oktests) + ".\n"
		// memberDeviceForGroup: which group types get the account key
		dk := parse("pkg/secretstore/device_keystore_wrapper.go")
		var acctTypes, derivedTypes []string
		if fd := funcDecl(dk, "deviceKeystore", "memberDeviceForGroup"); fd != nil && fd.Body != nil {
			ast.Inspect(fd.Body, func(n ast.Node) bool {
				cc, ok := n.(*ast.CaseClause)
				if !ok {
					return true
				}
				usesAccount, usesDerived := false, false
				for _, st := range cc.Body {
					ast.Inspect(st, func(m ast.Node) bool {
						if c, ok := m.(*ast.CallExpr); ok {
							fn := exprString(c.Fun)
							if strings.HasSuffix(fn, ".getAccountPrivateKey") {
								usesAccount = true
							}
							if strings.HasSuffix(fn, ".memberDeviceForMultiMemberGroup") {
								usesDerived = true
							}
						}
						return true
					})
				}
				for _, e := range cc.List {
					name := exprString(e)
					name = name[strings.LastIndex(name, ".")+1:]
					if usesAccount {
						acctTypes = append(acctTypes, name)
					}
					if usesDerived {
						derivedTypes = append(derivedTypes, name)
					}
				}
				return true
			})
		}
		body += "\n(* device_keystore_wrapper.go memberDeviceForGroup: group types served with the account key / with derived keys *)\n"
		body += "Definition account_key_group_types : list string := " + coqStrList(acctTypes) + ".\n"
		body += "Definition derived_key_group_types : list string := " + coqStrList(derivedTypes) + ".\n"
		// api_multimember.go: the service methods check the invitation (GroupJoin of the account metadata
		// store) BEFORE anything is written to the secret store
		mm := parse("api_multimember.go")
		keep := map[string]bool{"accountGroup.MetadataStore().GroupJoin": true, "s.secretStore.PutGroup": true}
		body += "\n(* api_multimember.go: GroupJoin / PutGroup calls of the two service methods, in order, with whether a failure returns at once *)\n"
		body += "Definition service_join_steps : list (string * bool) := " + coqPairs(guardedCalls(funcDecl(mm, "service", "MultiMemberGroupJoin")), keep) + ".\n"
		body += "Definition service_create_steps : list (string * bool) := " + coqPairs(guardedCalls(funcDecl(mm, "service", "MultiMemberGroupCreate")), keep) + ".\n"
		write("Join.v", body)
	})
}

func itoa(n int) string {
	if n == 0 {
		return "0"
	}
	s := ""
	for n > 0 {
		s = string(rune('0'+n%10)) + s
		n /= 10
	}
	return s
}
