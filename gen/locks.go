package main

import (
	"fmt"
	"go/ast"
	"go/token"
	"sort"
	"strings"
)

// Gen/Locks.v — lock-nesting edges "B is acquired while A is held" of the concurrency files,
// computed syntactically per function (deferred unlocks hold until the end of the function;
// calls to functions of the same file contribute the locks those functions acquire;
// Notify.Broadcast / Notify.Wait contribute the notify primitive's own mutex).
func init() {
	extractors = append(extractors, func() {
		files := []string{"connectedness_manager.go", "internal/notify/notify.go", "pkg/lifecycle/manager.go", "pkg/tinder/peer_cache.go"}
		var rows []string
		var aliases []string
		for _, rel := range files {
			f := parse(rel)
			if f == nil {
				rows = append(rows, fmt.Sprintf("(%s, %s, %s)", coqStr(rel), coqStr("<unparsable>"), coqStr("<unparsable>")))
				continue
			}
			alias := notifyAlias(f)
			if alias != "" {
				aliases = append(aliases, fmt.Sprintf("(%s, %s)", coqStr(rel), coqStr(alias)))
			}
			canon := func(e ast.Expr) string {
				t := exprString(e)
				if strings.HasSuffix(t, "notify.L") || t == "n.L" {
					if alias != "" {
						return alias
					}
					return "notify.L"
				}
				if t == "n.mu" {
					return "notify.mu"
				}
				if i := strings.LastIndex(t, "."); i >= 0 {
					t = t[i+1:]
				}
				return t
			}
			funcs := map[string]*ast.FuncDecl{}
			for _, d := range f.f.Decls {
				if fd, ok := d.(*ast.FuncDecl); ok && fd.Body != nil {
					funcs[fd.Name.Name] = fd
				}
			}
			// locks acquired anywhere in a function (transitively through same-file calls)
			acq := map[string]map[string]bool{}
			var acquires func(name string, seen map[string]bool) map[string]bool
			acquires = func(name string, seen map[string]bool) map[string]bool {
				if r, ok := acq[name]; ok {
					return r
				}
				if seen[name] {
					return map[string]bool{}
				}
				seen[name] = true
				r := map[string]bool{}
				fd := funcs[name]
				if fd == nil {
					return r
				}
				ast.Inspect(fd.Body, func(n ast.Node) bool {
					c, ok := n.(*ast.CallExpr)
					if !ok {
						return true
					}
					if s, ok := c.Fun.(*ast.SelectorExpr); ok {
						switch s.Sel.Name {
						case "Lock", "RLock":
							if len(c.Args) == 0 {
								r[canon(s.X)] = true
							}
						case "Broadcast":
							r["notify.mu"] = true
						case "Wait":
							if len(c.Args) == 1 {
								r["notify.mu"] = true
							}
						default:
							if _, same := funcs[s.Sel.Name]; same {
								for k := range acquires(s.Sel.Name, seen) {
									r[k] = true
								}
							}
						}
					} else if id, ok := c.Fun.(*ast.Ident); ok {
						if _, same := funcs[id.Name]; same {
							for k := range acquires(id.Name, seen) {
								r[k] = true
							}
						}
					}
					return true
				})
				acq[name] = r
				return r
			}
			edges := map[string]bool{}
			names := make([]string, 0, len(funcs))
			for n := range funcs {
				names = append(names, n)
			}
			sort.Strings(names)
			for _, name := range names {
				held := []string{}
				add := func(l string) {
					for _, h := range held {
						if h != l {
							edges[h+"\x00"+l] = true
						}
					}
				}
				var walk func(n ast.Node)
				walk = func(n ast.Node) {
					ast.Inspect(n, func(m ast.Node) bool {
						switch x := m.(type) {
						case *ast.FuncLit:
							return false // closures run later; not part of this nesting
						case *ast.DeferStmt:
							return false // deferred unlock: the lock stays held to the end
						case *ast.CallExpr:
							if s, ok := x.Fun.(*ast.SelectorExpr); ok {
								switch s.Sel.Name {
								case "Lock", "RLock":
									if len(x.Args) == 0 {
										l := canon(s.X)
										add(l)
										held = append(held, l)
										return false
									}
								case "Unlock", "RUnlock":
									if len(x.Args) == 0 {
										l := canon(s.X)
										for i := len(held) - 1; i >= 0; i-- {
											if held[i] == l {
												held = append(held[:i], held[i+1:]...)
												break
											}
										}
										return false
									}
								case "Broadcast":
									add("notify.mu")
								case "Wait":
									if len(x.Args) == 1 {
										add("notify.mu")
									}
								default:
									if _, same := funcs[s.Sel.Name]; same {
										for l := range acquires(s.Sel.Name, map[string]bool{}) {
											add(l)
										}
									}
								}
							} else if id, ok := x.Fun.(*ast.Ident); ok {
								if _, same := funcs[id.Name]; same {
									for l := range acquires(id.Name, map[string]bool{}) {
										add(l)
									}
								}
							}
						}
						return true
					})
				}
				walk(funcs[name].Body)
			}
			var es []string
			for e := range edges {
				es = append(es, e)
			}
			sort.Strings(es)
			for _, e := range es {
				p := strings.SplitN(e, "\x00", 2)
				rows = append(rows, fmt.Sprintf("(%s, %s, %s)", coqStr(rel), coqStr(p[0]), coqStr(p[1])))
			}
		}
		body := "Definition lock_edges : list (string * string * string) := [\n  " + strings.Join(rows, ";\n  ") + "\n].\n"
		body += "(* the mutex handed to notify.New in each client file *)\nDefinition notify_locker : list (string * string) := [" + strings.Join(aliases, "; ") + "].\n"
		write("Locks.v", body)
	})
}

// notifyAlias: the canonical name of the locker passed to notify.New in this file, when it
// is an existing mutex (notify.New(&m.muState), notify.New(&locker)); "" for a fresh one.
func notifyAlias(f *file) string {
	res := ""
	ast.Inspect(f.f, func(n ast.Node) bool {
		c, ok := n.(*ast.CallExpr)
		if !ok || len(c.Args) != 1 {
			return true
		}
		s, ok := c.Fun.(*ast.SelectorExpr)
		if !ok || s.Sel.Name != "New" || exprString(s.X) != "notify" {
			return true
		}
		u, ok := c.Args[0].(*ast.UnaryExpr)
		if !ok || u.Op != token.AND {
			return true
		}
		if _, isLit := u.X.(*ast.CompositeLit); isLit {
			return true
		}
		t := exprString(u.X)
		if i := strings.LastIndex(t, "."); i >= 0 {
			t = t[i+1:]
		}
		res = t
		return true
	})
	return res
}
