package main

import (
	"fmt"
	"go/ast"
	"strings"
)

// Gen/Pipeline.v — the shape of the message pipeline of store_message.go that the C08 model
// (Model/C08_Pipeline.v) follows: the locks and the calls of getOrCreateDeviceCache,
// ProcessMessageQueueForDevicePK and processMessageLoop in source order, which functions write the
// hasKnownChainKey flag of a device cache, and how many return statements the first two have.
func init() {
	extractors = append(extractors, func() {
		f := parse("store_message.go")
		body := "(* store_message.go: locks and calls, in source order *)\n"
		body += "Definition pipe_get_or_create : list string := " + coqStrList(skeletonWithCalls(funcDecl(f, "MessageStore", "getOrCreateDeviceCache"),
			[]string{"IsChainKeyKnownForDevice", "Add"})) + ".\n"
		body += "Definition pipe_register : list string := " + coqStrList(skeletonWithCalls(funcDecl(f, "MessageStore", "ProcessMessageQueueForDevicePK"),
			[]string{"UnmarshalEd25519PublicKey", "IsChainKeyKnownForDevice", "processDeviceMessagesInQueue"})) + ".\n"
		body += "Definition pipe_loop : list string := " + coqStrList(skeletonWithCalls(funcDecl(f, "MessageStore", "processMessageLoop"),
			[]string{"WaitForItem", "getOrCreateDeviceCache", "processMessage", "Add", "processDeviceMessagesInQueue", "Emit"})) + ".\n"
		// writers of the flag
		var writers, users []string
		seenUser := map[string]bool{}
		returns := map[string]int{}
		if f != nil {
			for _, d := range f.f.Decls {
				fd, ok := d.(*ast.FuncDecl)
				if !ok || fd.Body == nil {
					continue
				}
				writes := false
				ast.Inspect(fd.Body, func(n ast.Node) bool {
					if se, ok := n.(*ast.SelectorExpr); ok && se.Sel.Name == "hasKnownChainKey" && !seenUser[fd.Name.Name] {
						seenUser[fd.Name.Name] = true
						users = append(users, fd.Name.Name)
					}
					switch x := n.(type) {
					case *ast.AssignStmt:
						for _, l := range x.Lhs {
							if strings.HasSuffix(exprString(l), ".hasKnownChainKey") {
								writes = true
							}
						}
					case *ast.KeyValueExpr:
						if exprString(x.Key) == "hasKnownChainKey" {
							writes = true
						}
					case *ast.ReturnStmt:
						returns[fd.Name.Name]++
					case *ast.FuncLit:
						return false
					}
					return true
				})
				if writes {
					writers = append(writers, fd.Name.Name)
				}
			}
		}
		// under which conditions the loop makes its calls, and how each conditional block ends
		body += "\n(* processMessageLoop: every call with the conditions of the if statements around it (innermost last), and, for\n   each if statement of the loop body, how its block ends *)\n"
		body += "Definition pipe_loop_guards : list string := " + coqStrList(callContexts(funcDecl(f, "MessageStore", "processMessageLoop"),
			[]string{"WaitForItem", "getOrCreateDeviceCache", "processMessage", "Add", "processDeviceMessagesInQueue", "Emit"})) + ".\n"
		body += "\n(* functions that write the hasKnownChainKey flag of a device cache; return statements of the two functions that hold muDeviceCaches *)\n"
		body += "Definition chain_key_flag_writers : list string := " + coqStrList(writers) + ".\n"
		body += "Definition chain_key_flag_users : list string := " + coqStrList(users) + ".\n"
		body += fmt.Sprintf("Definition pipe_returns : nat * nat := (%d, %d)%%nat.\n", returns["getOrCreateDeviceCache"], returns["ProcessMessageQueueForDevicePK"])
		write("Pipeline.v", body)
	})
}

// callContexts lists, in source order, the calls of fd to the given helpers, each with the conditions of the
// enclosing if statements ("call X @ c1 @ c2"; an else branch is "else(c)"), and for every if statement an
// entry "if c ends <continue|return|break|fallthrough-to-next>" saying how its block ends.
func callContexts(fd *ast.FuncDecl, helpers []string) []string {
	var out []string
	if fd == nil || fd.Body == nil {
		return out
	}
	want := map[string]bool{}
	for _, h := range helpers {
		want[h] = true
	}
	blockEnd := func(b *ast.BlockStmt) string {
		if b == nil || len(b.List) == 0 {
			return "next"
		}
		switch x := b.List[len(b.List)-1].(type) {
		case *ast.ReturnStmt:
			return "return"
		case *ast.BranchStmt:
			return x.Tok.String()
		}
		return "next"
	}
	var walkStmt func(st ast.Stmt, ctx []string)
	calls := func(n ast.Node, ctx []string) {
		ast.Inspect(n, func(m ast.Node) bool {
			switch c := m.(type) {
			case *ast.FuncLit:
				return false
			case *ast.CallExpr:
				name := ""
				switch f := c.Fun.(type) {
				case *ast.SelectorExpr:
					name = f.Sel.Name
				case *ast.Ident:
					name = f.Name
				}
				if want[name] {
					out = append(out, strings.Join(append([]string{"call " + name}, ctx...), " @ "))
				}
			}
			return true
		})
	}
	walkBlock := func(b *ast.BlockStmt, ctx []string) {
		if b == nil {
			return
		}
		for _, st := range b.List {
			walkStmt(st, ctx)
		}
	}
	walkStmt = func(st ast.Stmt, ctx []string) {
		switch x := st.(type) {
		case *ast.IfStmt:
			if x.Init != nil {
				calls(x.Init, ctx)
			}
			calls(x.Cond, ctx)
			cond := exprString(x.Cond)
			out = append(out, "if "+cond+" ends "+blockEnd(x.Body))
			walkBlock(x.Body, append(append([]string{}, ctx...), cond))
			if x.Else != nil {
				walkStmt(x.Else, append(append([]string{}, ctx...), "else("+cond+")"))
			}
		case *ast.BlockStmt:
			walkBlock(x, ctx)
		case *ast.ForStmt:
			walkBlock(x.Body, ctx)
		case *ast.RangeStmt:
			walkBlock(x.Body, ctx)
		default:
			calls(st, ctx)
		}
	}
	walkBlock(fd.Body, nil)
	return out
}
