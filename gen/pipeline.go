package main

import (
	"fmt"
	"go/ast"
	"strings"
)

// Gen/Pipeline.v — the shape of the message pipeline of store_message.go that the C08 model
// (Model/C08_Pipeline.v) follows: the locks and the calls of getOrCreateDeviceCache,
// ProcessMessageQueueForDevicePK and processMessageLoop in source order, which functions write the
// hasKnownChainKey flag of a device cache, and how many return statements the first two have.
func init() {
	extractors = append(extractors, func() {
		f := parse("store_message.go")
		body := "(* store_message.go: locks and calls, in source order *)\n"
		body += "Definition pipe_get_or_create : list string := " + coqStrList(skeletonWithCalls(funcDecl(f, "MessageStore", "getOrCreateDeviceCache"),
			[]string{"IsChainKeyKnownForDevice", "Add"})) + ".\n"
		body += "Definition pipe_register : list string := " + coqStrList(skeletonWithCalls(funcDecl(f, "MessageStore", "ProcessMessageQueueForDevicePK"),
			[]string{"UnmarshalEd25519PublicKey", "IsChainKeyKnownForDevice", "processDeviceMessagesInQueue"})) + ".\n"
		body += "Definition pipe_loop : list string := " + coqStrList(skeletonWithCalls(funcDecl(f, "MessageStore", "processMessageLoop"),
			[]string{"WaitForItem", "getOrCreateDeviceCache", "processMessage", "Add", "processDeviceMessagesInQueue", "Emit"})) + ".\n"
		// writers of the flag
		var writers, users []string
		seenUser := map[string]bool{}
		returns := map[string]int{}
		if f != nil {
			for _, d := range f.f.Decls {
				fd, ok := d.(*ast.FuncDecl)
				if !ok || fd.Body == nil {
					continue
				}
				writes := false
				ast.Inspect(fd.Body, func(n ast.Node) bool {
					if se, ok := n.(*ast.SelectorExpr); ok && se.Sel.Name == "hasKnownChainKey" && !seenUser[fd.Name.Name] {
						seenUser[fd.Name.Name] = true
						users = append(users, fd.Name.Name)
					}
					switch x := n.(type) {
					case *ast.AssignStmt:
						for _, l := range x.Lhs {
							if strings.HasSuffix(exprString(l), ".hasKnownChainKey") {
								writes = true
							}
						}
					case *ast.KeyValueExpr:
						if exprString(x.Key) == "hasKnownChainKey" {
							writes = true
						}
					case *ast.ReturnStmt:
						returns[fd.Name.Name]++
					case *ast.FuncLit:
						return false
					}
					return true
				})
				if writes {
					writers = append(writers, fd.Name.Name)
				}
			}
		}
		body += "\n(* functions that write the hasKnownChainKey flag of a device cache; return statements of the two functions that hold muDeviceCaches *)\n"
		body += "Definition chain_key_flag_writers : list string := " + coqStrList(writers) + ".\n"
		body += "Definition chain_key_flag_users : list string := " + coqStrList(users) + ".\n"
		body += fmt.Sprintf("Definition pipe_returns : nat * nat := (%d, %d)%%nat.\n", returns["getOrCreateDeviceCache"], returns["ProcessMessageQueueForDevicePK"])
		write("Pipeline.v", body)
	})
}
