package main

import "fmt"

// Gen/Consts.v — integer constants the theorems are instantiated with.
func init() {
	extractors = append(extractors, func() {
		type c struct{ file, name, coq string }
		cs := []c{
			{"pkg/secretstore/secret_store_interfaces.go", "PrecomputeMessageKeyCount", "precompute_message_key_count"},
			{"pkg/secretstore/secret_store_interfaces.go", "PrecomputeOutOfStoreGroupRefsCount", "precompute_oos_refs_count"},
			{"pkg/protoio/uint32.go", "uint32BinaryLen", "uint32_binary_len"},
		}
		body := ""
		for _, x := range cs {
			v, ok := intConst(parse(x.file), x.name)
			if !ok {
				body += fmt.Sprintf("(* %s.%s: not found as an integer literal in the current tree *)\n", x.file, x.name)
				continue
			}
			body += fmt.Sprintf("Definition %s : N := %s. (* %s: %s *)\n", x.coq, v, x.file, x.name)
		}
		write("Consts.v", body)
	})
}
