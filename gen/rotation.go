package main

import (
	"fmt"
	"go/ast"
	"go/token"
)

// Gen/Rotation.v — the comparison Point.IsExpired applies to the time left.
func init() {
	extractors = append(extractors, func() {
		f := parse("pkg/rendezvous/rotation.go")
		fd := funcDecl(f, "Point", "IsExpired")
		body := "From Wesh Require Import Model.C17_Rendezvous.\n\n"
		ok := false
		if fd != nil && fd.Body != nil && len(fd.Body.List) == 1 {
			if rs, isRet := fd.Body.List[0].(*ast.ReturnStmt); isRet && len(rs.Results) == 1 {
				if be, isBin := rs.Results[0].(*ast.BinaryExpr); isBin {
					l, r := exprString(be.X), exprString(be.Y)
					ops := map[token.Token]string{token.GTR: "CmpGt", token.GEQ: "CmpGe", token.LSS: "CmpLt", token.LEQ: "CmpLe", token.EQL: "CmpEq", token.NEQ: "CmpNe"}
					flip := map[string]string{"CmpGt": "CmpLt", "CmpGe": "CmpLe", "CmpLt": "CmpGt", "CmpLe": "CmpGe", "CmpEq": "CmpEq", "CmpNe": "CmpNe"}
					if op, known := ops[be.Op]; known {
						if l == "p.TTL()" && r == "0" {
							body += fmt.Sprintf("(* rotation.go IsExpired: return %s %s %s *)\nDefinition is_expired_op : cmp := %s.\n", l, be.Op, r, op)
							ok = true
						} else if l == "0" && r == "p.TTL()" {
							body += fmt.Sprintf("(* rotation.go IsExpired: return %s %s %s *)\nDefinition is_expired_op : cmp := %s.\n", l, be.Op, r, flip[op])
							ok = true
						}
					}
				}
			}
		}
		if !ok {
			body += "(* rotation.go: Point.IsExpired is no longer a single comparison of p.TTL() with 0; the\n   generated fact cannot be stated — the theorems that depend on it will not be instantiated *)\n"
		}
		write("Rotation.v", body)
	})
}
