package main

import (
	"go/ast"
	"strings"
)

// Gen/Registry.v — service_group.go reindexGroupDatastore: which listings of the account metadata
// store feed the group registry of the secret store (what a node that starts on restored state can
// find by public key), and the contact states handed to ListContactsByStatus.
func init() {
	extractors = append(extractors, func() {
		f := parse("service_group.go")
		var sources, states []string
		if fd := funcDecl(f, "", "reindexGroupDatastore"); fd != nil && fd.Body != nil {
			ast.Inspect(fd.Body, func(n ast.Node) bool {
				rs, ok := n.(*ast.RangeStmt)
				if !ok {
					return true
				}
				c, ok := rs.X.(*ast.CallExpr)
				if !ok {
					return true
				}
				name := exprString(c.Fun)
				puts := false
				ast.Inspect(rs.Body, func(m ast.Node) bool {
					if cc, ok := m.(*ast.CallExpr); ok && strings.HasSuffix(exprString(cc.Fun), ".PutGroup") {
						puts = true
					}
					return true
				})
				if puts {
					sources = append(sources, name)
					if strings.HasSuffix(name, "ListContactsByStatus") {
						for _, a := range c.Args {
							s := exprString(a)
							states = append(states, strings.TrimPrefix(s, "protocoltypes.ContactState_ContactState"))
						}
					}
				}
				return true
			})
		}
		body := "(* service_group.go reindexGroupDatastore: the listings whose groups are put into the secret store, and the contact states listed *)\n"
		body += "Definition registry_sources : list string := " + coqStrList(sources) + ".\n"
		body += "Definition registry_contact_states : list string := " + coqStrList(states) + ".\n"
		write("Registry.v", body)
	})
}
