package main

import (
	"fmt"
	"go/ast"
	"strings"
)

// Gen/Keystore.v — pkg/secretstore/device_keystore_wrapper.go: for every method of deviceKeystore the
// lock operations and the keystore reads/writes (Get, Put) and get-or-create helpers it calls, in
// source order: the shape the first-use model (Model/C11_FirstUse.v) follows - every get-or-create
// runs inside ONE exclusive critical section of a.mu.
func init() {
	extractors = append(extractors, func() {
		f := parse("pkg/secretstore/device_keystore_wrapper.go")
		var rows []string
		if f != nil {
			for _, d := range f.f.Decls {
				fd, ok := d.(*ast.FuncDecl)
				if !ok || fd.Body == nil || fd.Recv == nil {
					continue
				}
				sk := skeletonWithCalls(fd, []string{"Get", "Put", "getOrGenerateNamedKey", "getOrComputeECDH", "getOrGenerateDeviceKeyForMultiMemberGroup"})
				touches := false
				for _, s := range sk {
					if strings.HasPrefix(s, "call ") {
						touches = true
					}
				}
				if touches {
					rows = append(rows, fmt.Sprintf("(%s, %s)", coqStr(fd.Name.Name), coqStrList(sk)))
				}
			}
		}
		body := "(* device_keystore_wrapper.go: methods that read or write the keystore: lock operations and keystore calls in source order *)\n"
		body += "Definition keystore_skeletons : list (string * list string) :=\n  [" + strings.Join(rows, ";\n   ") + "].\n"
		write("Keystore.v", body)
	})
}
