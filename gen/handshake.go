package main

import (
	"fmt"
	"go/ast"
	"strings"
)

// guardedCalls lists, in order, the calls made by the top-level statements of a function together
// with whether a failure of the call makes the function return at once:
//   if err := CALL; err != nil { ...; return }      x, err := CALL / if err != nil { return }
//   if !CALL { return }
func guardedCalls(fd *ast.FuncDecl) [][2]string {
	var out [][2]string
	if fd == nil || fd.Body == nil {
		return out
	}
	endsInReturn := func(b *ast.BlockStmt) bool {
		if b == nil || len(b.List) == 0 {
			return false
		}
		_, ok := b.List[len(b.List)-1].(*ast.ReturnStmt)
		return ok
	}
	callOf := func(st ast.Stmt) string {
		switch x := st.(type) {
		case *ast.AssignStmt:
			if len(x.Rhs) == 1 {
				if c, ok := x.Rhs[0].(*ast.CallExpr); ok {
					return exprString(c.Fun)
				}
			}
		case *ast.ExprStmt:
			if c, ok := x.X.(*ast.CallExpr); ok {
				return exprString(c.Fun)
			}
		}
		return ""
	}
	pending := ""
	flush := func(guarded bool) {
		if pending != "" {
			out = append(out, [2]string{pending, fmt.Sprint(guarded)})
			pending = ""
		}
	}
	for _, st := range fd.Body.List {
		switch x := st.(type) {
		case *ast.IfStmt:
			cond := strings.ReplaceAll(exprString(x.Cond), " ", "")
			if x.Init != nil {
				flush(false)
				if c := callOf(x.Init); c != "" {
					out = append(out, [2]string{c, fmt.Sprint(cond == "err!=nil" && endsInReturn(x.Body))})
				}
				continue
			}
			if cond == "err!=nil" {
				flush(endsInReturn(x.Body))
				continue
			}
			flush(false)
			if u, ok := x.Cond.(*ast.UnaryExpr); ok {
				if c, ok := u.X.(*ast.CallExpr); ok {
					out = append(out, [2]string{exprString(c.Fun), fmt.Sprint(endsInReturn(x.Body))})
				}
			}
		default:
			flush(false)
			pending = callOf(st)
		}
	}
	flush(false)
	return out
}

func coqPairs(ps [][2]string, keep map[string]bool) string {
	var rows []string
	for _, p := range ps {
		if keep[p[0]] {
			rows = append(rows, "("+coqStr(p[0])+", "+p[1]+")")
		}
	}
	return "[" + strings.Join(rows, "; ") + "]"
}

// Gen/Handshake.v — does receivePeerEphemeralPubKey validate the peer's ephemeral public key
// (a curve25519.X25519 call whose error is returned: low-order points are refused)?
func init() {
	extractors = append(extractors, func() {
		f := parse("internal/handshake/handshake.go")
		fd := funcDecl(f, "handshakeContext", "receivePeerEphemeralPubKey")
		validates := false
		if fd != nil && fd.Body != nil {
			ast.Inspect(fd.Body, func(n ast.Node) bool {
				if c, ok := n.(*ast.CallExpr); ok {
					if exprString(c.Fun) == "curve25519.X25519" {
						validates = true
					}
				}
				return true
			})
		}
		v := "false"
		if validates {
			v = "true"
		}
		body := "(* handshake.go receivePeerEphemeralPubKey calls curve25519.X25519 on the received point and fails on its error *)\nDefinition handshake_validates_peer_ephemeral : bool := " + v + ".\n"
		crm := parse("contact_request_manager.go")
		body += "\n(* contact_request_manager.go: the steps of SendContactRequest and handleIncomingRequest in order, each with\n   whether its failure makes the function return at once *)\n"
		body += "Definition send_request_steps : list (string * bool) := " + coqPairs(guardedCalls(funcDecl(crm, "contactRequestsManager", "SendContactRequest")),
			map[string]bool{"handshake.RequestUsingReaderWriter": true, "writer.WriteMsg": true, "c.metadataStore.ContactRequestOutgoingSent": true}) + ".\n"
		body += "Definition incoming_request_steps : list (string * bool) := " + coqPairs(guardedCalls(funcDecl(crm, "contactRequestsManager", "handleIncomingRequest")),
			map[string]bool{"handshake.ResponseUsingReaderWriter": true, "reader.ReadMsg": true, "bytes.Equal": true, "contact.CheckFormat": true, "c.metadataStore.ContactRequestIncomingReceived": true}) + ".\n"
		// the two roles: their steps in order (each one's failure returns at once) and every return statement of the
		// function, in source order
		roleSteps := func(rel, name string) (string, string) {
			rf := parse(rel)
			fd := funcDecl(rf, "", name)
			keep := map[string]bool{}
			var rets []string
			if fd != nil && fd.Body != nil {
				ast.Inspect(fd.Body, func(n ast.Node) bool {
					switch x := n.(type) {
					case *ast.FuncLit:
						return false
					case *ast.CallExpr:
						if f := exprString(x.Fun); strings.HasPrefix(f, "hc.") {
							keep[f] = true
						}
					case *ast.ReturnStmt:
						var rs []string
						for _, r := range x.Results {
							e := exprString(r)
							if i := strings.Index(e, ".Wrap("); i >= 0 {
								e = "error"
							}
							rs = append(rs, e)
						}
						rets = append(rets, strings.Join(rs, ", "))
					}
					return true
				})
			}
			delete(keep, "hc.toTyberStepMutator")
			return coqPairs(guardedCalls(fd), keep), coqStrList(rets)
		}
		rq, rqr := roleSteps("internal/handshake/request.go", "RequestUsingReaderWriter")
		rs, rsr := roleSteps("internal/handshake/response.go", "ResponseUsingReaderWriter")
		body += "\n(* internal/handshake: the steps of the two roles in order, each with whether its failure makes the function return at\n   once, and the return statements of the two functions in source order (a wrapped error is \"error\") *)\n"
		body += "Definition requester_role_steps : list (string * bool) := " + rq + ".\n"
		body += "Definition requester_role_returns : list string := " + rqr + ".\n"
		body += "Definition responder_role_steps : list (string * bool) := " + rs + ".\n"
		body += "Definition responder_role_returns : list string := " + rsr + ".\n"
		write("Handshake.v", body)
	})
}
