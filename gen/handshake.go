package main

import (
	"go/ast"
)

// Gen/Handshake.v — does receivePeerEphemeralPubKey validate the peer's ephemeral public key
// (a curve25519.X25519 call whose error is returned: low-order points are refused)?
func init() {
	extractors = append(extractors, func() {
		f := parse("internal/handshake/handshake.go")
		fd := funcDecl(f, "handshakeContext", "receivePeerEphemeralPubKey")
		validates := false
		if fd != nil && fd.Body != nil {
			ast.Inspect(fd.Body, func(n ast.Node) bool {
				if c, ok := n.(*ast.CallExpr); ok {
					if exprString(c.Fun) == "curve25519.X25519" {
						validates = true
					}
				}
				return true
			})
		}
		v := "false"
		if validates {
			v = "true"
		}
		write("Handshake.v", "(* handshake.go receivePeerEphemeralPubKey calls curve25519.X25519 on the received point and fails on its error *)\nDefinition handshake_validates_peer_ephemeral : bool := "+v+".\n")
	})
}
