package main

import (
	"fmt"
	"go/ast"
	"go/token"
	"path/filepath"
	"sort"
	"strings"
)

// Gen/Handlers.v — for every method of *service in api_*.go: does it use the account group
// context, is every such use guarded by a nil test that returns, does it call panic explicitly,
// does it dereference a sub-message of its request without a nil test;
// and the length guards of the exported decrypt helpers of pkg/cryptoutil.
func init() {
	extractors = append(extractors, func() {
		files, _ := filepath.Glob(filepath.Join(repo, "api_*.go"))
		sort.Strings(files)
		var rows []string
		for _, p := range files {
			rel, _ := filepath.Rel(repo, p)
			f := parse(rel)
			if f == nil {
				continue
			}
			for _, d := range f.f.Decls {
				fd, ok := d.(*ast.FuncDecl)
				if !ok || fd.Recv == nil || fd.Body == nil || !ast.IsExported(fd.Name.Name) {
					continue
				}
				rt := fd.Recv.List[0].Type
				if st, ok := rt.(*ast.StarExpr); ok {
					rt = st.X
				}
				if id, ok := rt.(*ast.Ident); !ok || id.Name != "service" {
					continue
				}
				uses, unguarded, panics := false, false, false
				// variables assigned from s.getAccountGroup() and whether they are nil-tested with a return
				vars := map[string]bool{}
				ast.Inspect(fd.Body, func(n ast.Node) bool {
					switch x := n.(type) {
					case *ast.AssignStmt:
						if len(x.Rhs) == 1 && len(x.Lhs) == 1 {
							if c, ok := x.Rhs[0].(*ast.CallExpr); ok && exprString(c.Fun) == "s.getAccountGroup" {
								uses = true
								vars[exprString(x.Lhs[0])] = false
							}
						}
					case *ast.IfStmt:
						if b, ok := x.Cond.(*ast.BinaryExpr); ok && b.Op == token.EQL && exprString(b.Y) == "nil" {
							if _, known := vars[exprString(b.X)]; known && len(x.Body.List) > 0 {
								if _, ret := x.Body.List[len(x.Body.List)-1].(*ast.ReturnStmt); ret {
									vars[exprString(b.X)] = true
								}
							}
						}
					case *ast.SelectorExpr:
						s := exprString(x)
						if strings.HasPrefix(s, "s.accountGroupCtx.") || strings.HasPrefix(s, "s.getAccountGroup().") {
							uses, unguarded = true, true
						}
					case *ast.CallExpr:
						if exprString(x.Fun) == "panic" {
							panics = true
						}
					}
					return true
				})
				for _, tested := range vars {
					if !tested {
						unguarded = true
					}
				}
				rows = append(rows, fmt.Sprintf("(%s, %v, %v, %v)", coqStr(fd.Name.Name), uses, !unguarded, panics))
			}
		}
		body := "(* api_*.go, exported methods of *service: (name, uses the account group context, every use guarded by a nil test that returns, calls panic) *)\n"
		body += "Definition handler_table : list (string * bool * bool * bool) :=\n  [" + strings.Join(rows, ";\n   ") + "].\n\n"

		cu := parse("pkg/cryptoutil/cryptoutil.go")
		guard := func(fn, cond string) bool {
			found := false
			if fd := funcDecl(cu, "", fn); fd != nil && fd.Body != nil {
				ast.Inspect(fd.Body, func(n ast.Node) bool {
					if is, ok := n.(*ast.IfStmt); ok && strings.ReplaceAll(exprString(is.Cond), " ", "") == cond && len(is.Body.List) > 0 {
						if _, ret := is.Body.List[len(is.Body.List)-1].(*ast.ReturnStmt); ret {
							found = true
						}
					}
					return true
				})
			}
			return found
		}
		body += "(* pkg/cryptoutil: AESGCMDecrypt returns an error when the input is shorter than the nonce; AESCTRStream when the IV is not one block *)\n"
		body += fmt.Sprintf("Definition aesgcm_decrypt_length_guard : bool := %v.\n", guard("AESGCMDecrypt", "len(data)<gcm.NonceSize()"))
		body += fmt.Sprintf("Definition aesctr_iv_length_guard : bool := %v.\n", guard("AESCTRStream", "len(iv)!=blockCipher.BlockSize()"))
		// fixed-size conversions of caller-supplied bytes that panic on another length
		guardIn := func(rel, recv, fn, cond string) bool {
			found := false
			if fd := funcDecl(parse(rel), recv, fn); fd != nil && fd.Body != nil {
				ast.Inspect(fd.Body, func(n ast.Node) bool {
					if is, ok := n.(*ast.IfStmt); ok && strings.ReplaceAll(exprString(is.Cond), " ", "") == cond && len(is.Body.List) > 0 {
						if _, ret := is.Body.List[len(is.Body.List)-1].(*ast.ReturnStmt); ret {
							found = true
						}
					}
					return true
				})
			}
			return found
		}
		// OpenOutOfStoreMessage (and what it calls in the same file): the nonce goes through the
		// length-checked cryptoutil.NonceSliceToArray, and no slice is converted to an array directly
		nonceChecked, directConv := false, false
		if f := parse("pkg/secretstore/secret_store.go"); f != nil {
			for _, d := range f.f.Decls {
				fd, ok := d.(*ast.FuncDecl)
				if !ok || fd.Body == nil || !strings.Contains(fd.Name.Name, "OutOfStoreMessage") {
					continue
				}
				ast.Inspect(fd.Body, func(n ast.Node) bool {
					if c, ok := n.(*ast.CallExpr); ok {
						if exprString(c.Fun) == "cryptoutil.NonceSliceToArray" {
							nonceChecked = true
						}
						// a conversion (*[N]byte)(x) or [N]byte(x)
						fun := c.Fun
						if p, ok := fun.(*ast.ParenExpr); ok {
							fun = p.X
						}
						if st, ok := fun.(*ast.StarExpr); ok {
							fun = st.X
						}
						if _, ok := fun.(*ast.ArrayType); ok {
							directConv = true
						}
					}
					return true
				})
			}
		}
		body += "\n(* Group.GetSigningPrivKey returns an error unless the secret has the ed25519 seed size (NewKeyFromSeed panics otherwise);\n   the OutOfStoreMessage functions of secret_store.go take the nonce through cryptoutil.NonceSliceToArray and convert no slice to an array directly *)\n"
		body += fmt.Sprintf("Definition group_secret_length_guard : bool := %v.\n", guardIn("pkg/protocoltypes/group.go", "Group", "GetSigningPrivKey", "len(m.Secret)!=ed25519.SeedSize"))
		body += fmt.Sprintf("Definition push_nonce_length_checked : bool := %v.\n", nonceChecked && !directConv)
		write("Handlers.v", body)
	})
}
