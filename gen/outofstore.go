package main

import (
	"go/ast"
	"strings"
)

// Gen/OutOfStore.v — secretStore.OutOfStoreMessageOpen: how the "newly decrypted" flag (the
// negation of AlreadyReceived) is decided: its initial value, the first key look-up, what is
// assigned when that look-up hits, what is done when it misses, and the expression returned.
func init() {
	extractors = append(extractors, func() {
		f := parse("pkg/secretstore/secret_store_messages.go")
		var init0, first, flagRet string
		var hit, miss, calls []string
		if fd := funcDecl(f, "secretStore", "OutOfStoreMessageOpen"); fd != nil && fd.Body != nil {
			calls = skeletonWithCalls(fd, []string{"getKeyForCID", "getPrecomputedMessageKey", "openPayloadWithMessageKey", "preComputeNextKey"})
			for _, st := range fd.Body.List {
				switch x := st.(type) {
				case *ast.AssignStmt:
					if len(x.Lhs) == 1 && exprString(x.Lhs[0]) == "decryptionCtx" {
						init0 = stmtHead(x)
						// the fields the literal sets
						if u, ok := x.Rhs[0].(*ast.UnaryExpr); ok {
							if cl, ok := u.X.(*ast.CompositeLit); ok {
								var kv []string
								for _, e := range cl.Elts {
									if k, ok := e.(*ast.KeyValueExpr); ok {
										kv = append(kv, exprString(k.Key)+": "+exprString(k.Value))
									}
								}
								init0 = exprString(cl.Type) + "{" + strings.Join(kv, ", ") + "}"
							}
						}
					}
				case *ast.IfStmt:
					if first != "" || x.Init == nil {
						continue
					}
					h := stmtHead(x.Init)
					if !strings.Contains(h, "getKeyForCID") && !strings.Contains(h, "getPrecomputedMessageKey") {
						continue
					}
					first = h + " ; " + exprString(x.Cond)
					for _, b := range x.Body.List {
						hit = append(hit, stmtHead(b))
					}
					if eb, ok := x.Else.(*ast.BlockStmt); ok {
						for _, b := range eb.List {
							miss = append(miss, stmtHead(b))
						}
					}
				case *ast.ReturnStmt:
					if len(x.Results) == 3 {
						flagRet = exprString(x.Results[1])
					}
				}
			}
		}
		body := "(* secret_store_messages.go OutOfStoreMessageOpen *)\n"
		body += "Definition oos_skeleton : list string := " + coqStrList(calls) + ".\n"
		body += "Definition oos_flag_init : string := " + coqStr(init0) + ".\n"
		body += "Definition oos_first_lookup : string := " + coqStr(first) + ".\n"
		body += "Definition oos_on_hit : list string := " + coqStrList(hit) + ".\n"
		body += "Definition oos_on_miss : list string := " + coqStrList(miss) + ".\n"
		body += "Definition oos_flag_returned : string := " + coqStr(flagRet) + ".\n"
		write("OutOfStore.v", body)
	})
}
