package main

import (
	"fmt"
	"go/ast"
	"go/token"
	"sort"
	"strconv"
	"strings"
)

// Gen/Events.v — the metadata event types of the protocol (protocoltypes.pb.go), the
// type -> signature checker table consulted on every open (events.go: eventTypesMapper) and,
// for every checker of events_sig_checkers.go, the signature verifications it performs:
// which key, over which bytes, against which signature field, and that every verdict is tested.
func init() {
	extractors = append(extractors, func() {
		// 1. enum constants
		pb := parse("pkg/protocoltypes/protocoltypes.pb.go")
		types := map[string]string{}
		var names []string
		if pb != nil {
			for _, d := range pb.f.Decls {
				gd, ok := d.(*ast.GenDecl)
				if !ok || gd.Tok != token.CONST {
					continue
				}
				for _, s := range gd.Specs {
					vs, ok := s.(*ast.ValueSpec)
					if !ok || vs.Type == nil || exprString(vs.Type) != "EventType" {
						continue
					}
					for i, n := range vs.Names {
						if i < len(vs.Values) {
							if bl, ok := vs.Values[i].(*ast.BasicLit); ok && bl.Kind == token.INT {
								types[n.Name] = bl.Value
								names = append(names, n.Name)
							}
						}
					}
				}
			}
		}
		sort.Slice(names, func(i, j int) bool {
			a, _ := strconv.Atoi(types[names[i]])
			b, _ := strconv.Atoi(types[names[j]])
			return a < b
		})
		body := "Inductive checker := ChkDevice | ChkGroup | ChkMemberDevice | ChkOther (name : string).\n\n"
		var ts []string
		for _, n := range names {
			ts = append(ts, fmt.Sprintf("(%s, %s)", coqStr(n), types[n]))
		}
		body += "(* protocoltypes.pb.go: constants of type EventType *)\nDefinition event_types : list (string * N) :=\n  [" + strings.Join(ts, ";\n   ") + "].\n\n"

		// 2. eventTypesMapper
		ev := parse("events.go")
		var rows []string
		if ev != nil {
			for _, d := range ev.f.Decls {
				gd, ok := d.(*ast.GenDecl)
				if !ok || gd.Tok != token.VAR {
					continue
				}
				for _, s := range gd.Specs {
					vs, ok := s.(*ast.ValueSpec)
					if !ok || len(vs.Names) == 0 || vs.Names[0].Name != "eventTypesMapper" || len(vs.Values) == 0 {
						continue
					}
					cl, ok := vs.Values[0].(*ast.CompositeLit)
					if !ok {
						continue
					}
					for _, el := range cl.Elts {
						kv, ok := el.(*ast.KeyValueExpr)
						if !ok {
							continue
						}
						key := exprString(kv.Key)
						key = key[strings.LastIndex(key, ".")+1:]
						chk := ""
						if v, ok := kv.Value.(*ast.CompositeLit); ok {
							for _, f := range v.Elts {
								if fkv, ok := f.(*ast.KeyValueExpr); ok && exprString(fkv.Key) == "SigChecker" {
									chk = exprString(fkv.Value)
								}
							}
						}
						c := "ChkOther " + coqStr(chk)
						switch chk {
						case "sigCheckerDeviceSigned":
							c = "ChkDevice"
						case "sigCheckerGroupSigned":
							c = "ChkGroup"
						case "sigCheckerGroupMemberDeviceAdded":
							c = "ChkMemberDevice"
						}
						num, ok := types[key]
						if !ok {
							num = "0 (* unknown constant " + key + " *)"
						}
						rows = append(rows, fmt.Sprintf("(%s, %s)", num, c))
					}
				}
			}
		}
		body += "(* events.go: eventTypesMapper, type number -> SigChecker *)\nDefinition event_checkers : list (N * checker) :=\n  [" + strings.Join(rows, ";\n   ") + "].\n\n"

		// 3. the checkers
		sc := parse("events_sig_checkers.go")
		for _, fn := range []struct{ goName, coqName string }{
			{"sigCheckerDeviceSigned", "chk_device"}, {"sigCheckerGroupSigned", "chk_group"}, {"sigCheckerGroupMemberDeviceAdded", "chk_member_device"},
		} {
			fd := funcDecl(sc, "", fn.goName)
			var verifs, calls []string
			tested, verdicts := 0, 0
			if fd != nil && fd.Body != nil {
				// where does each local key variable come from?
				src := map[string]string{}
				ast.Inspect(fd.Body, func(n ast.Node) bool {
					as, ok := n.(*ast.AssignStmt)
					if !ok || len(as.Rhs) != 1 || len(as.Lhs) == 0 {
						return true
					}
					if c, ok := as.Rhs[0].(*ast.CallExpr); ok {
						f := exprString(c.Fun)
						if f == "crypto.UnmarshalEd25519PublicKey" && len(c.Args) == 1 {
							src[exprString(as.Lhs[0])] = exprString(c.Args[0])
						} else if strings.HasSuffix(f, ".GetPubKey") {
							src[exprString(as.Lhs[0])] = f
						}
					}
					return true
				})
				for _, st := range fd.Body.List {
					ast.Inspect(st, func(n ast.Node) bool {
						switch x := n.(type) {
						case *ast.CallExpr:
							f := exprString(x.Fun)
							if strings.HasSuffix(f, ".Verify") && len(x.Args) == 2 {
								recv := strings.TrimSuffix(f, ".Verify")
								if s, ok := src[recv]; ok {
									recv = s
								}
								verifs = append(verifs, fmt.Sprintf("(%s, %s, %s)", coqStr(recv), coqStr(exprString(x.Args[0])), coqStr(exprString(x.Args[1]))))
								verdicts++
							} else if strings.HasPrefix(f, "sigChecker") {
								calls = append(calls, coqStr(f))
							}
						case *ast.IfStmt:
							// if !ok { return <non-nil> }
							if u, ok := x.Cond.(*ast.UnaryExpr); ok && u.Op == token.NOT && exprString(u.X) == "ok" && len(x.Body.List) == 1 {
								if r, ok := x.Body.List[0].(*ast.ReturnStmt); ok && len(r.Results) == 1 && exprString(r.Results[0]) != "nil" {
									tested++
								}
							}
						}
						return true
					})
				}
			}
			// the first `if !ok` of a checker may test the type assertion, not a verdict
			body += fmt.Sprintf("(* events_sig_checkers.go: %s — (key source, signed bytes, signature) of every Verify call; checkers it delegates to; number of `if !ok { return error }` tests *)\n", fn.goName)
			body += fmt.Sprintf("Definition %s_verifies : list (string * string * string) := [%s].\n", fn.coqName, strings.Join(verifs, "; "))
			body += fmt.Sprintf("Definition %s_calls : list string := [%s].\n", fn.coqName, strings.Join(calls, "; "))
			body += fmt.Sprintf("Definition %s_ok_tests : nat := %d.\nDefinition %s_verdicts : nat := %d.\n\n", fn.coqName, tested, fn.coqName, verdicts)
		}
		// 4. openGroupEnvelope calls the checker of the table and fails on its error
		usesChecker := false
		if fd := funcDecl(ev, "", "openGroupEnvelope"); fd != nil && fd.Body != nil {
			ast.Inspect(fd.Body, func(n ast.Node) bool {
				is, ok := n.(*ast.IfStmt)
				if !ok || is.Init == nil {
					return true
				}
				as, ok := is.Init.(*ast.AssignStmt)
				if !ok || len(as.Rhs) != 1 {
					return true
				}
				if c, ok := as.Rhs[0].(*ast.CallExpr); ok && strings.HasSuffix(exprString(c.Fun), ".SigChecker") {
					if b, ok := is.Cond.(*ast.BinaryExpr); ok && b.Op == token.NEQ && len(is.Body.List) > 0 {
						if _, ok := is.Body.List[len(is.Body.List)-1].(*ast.ReturnStmt); ok {
							usesChecker = true
						}
					}
				}
				return true
			})
		}
		body += "(* events.go openGroupEnvelope: `if err := et.SigChecker(...); err != nil { return ... }` is present *)\n"
		body += fmt.Sprintf("Definition open_consults_checker : bool := %v.\n", usesChecker)
		write("Events.v", body)
	})
}
