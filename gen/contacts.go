package main

import (
	"fmt"
	"go/ast"
	"go/token"
	"strings"
)

// Gen/Contacts.v — the state guards of the seven contact operations of store_metadata.go,
// as a table: for every operation and every contact state, what the function does when the
// contact is in that state: append an event of some type, delegate to ContactRequestOutgoingSent,
// or refuse; plus the format / own-key tests in front of the guards.
func init() {
	extractors = append(extractors, func() {
		f := parse("store_metadata.go")
		pb := parse("pkg/protocoltypes/protocoltypes.pb.go")
		evNum := map[string]string{}
		stNum := map[string]string{}
		if pb != nil {
			for _, d := range pb.f.Decls {
				gd, ok := d.(*ast.GenDecl)
				if !ok || gd.Tok != token.CONST {
					continue
				}
				for _, s := range gd.Specs {
					vs, ok := s.(*ast.ValueSpec)
					if !ok || vs.Type == nil {
						continue
					}
					for i, n := range vs.Names {
						if i < len(vs.Values) {
							if bl, ok := vs.Values[i].(*ast.BasicLit); ok && bl.Kind == token.INT {
								switch exprString(vs.Type) {
								case "EventType":
									evNum[n.Name] = bl.Value
								case "ContactState":
									stNum[n.Name] = bl.Value
								}
							}
						}
					}
				}
			}
		}
		states := []string{"0", "1", "2", "3", "4", "5", "6"}
		last := func(s string) string { return s[strings.LastIndex(s, ".")+1:] }
		// verdict of a return statement
		verdictOf := func(r *ast.ReturnStmt) string {
			if r == nil || len(r.Results) == 0 {
				return "VUnknown"
			}
			txt := exprString(r.Results[0])
			if len(r.Results) == 1 { // return m.X(...)
				switch {
				case strings.Contains(txt, "ContactRequestOutgoingSent("):
					return "VSent"
				case strings.Contains(txt, "attributeSignAndAddEvent(") || strings.Contains(txt, "contactAction("):
					for name, num := range evNum {
						if strings.Contains(txt, name) {
							return "VAppend " + num
						}
					}
				}
				return "VUnknown"
			}
			if txt == "nil" {
				return "VRefuse"
			}
			return "VUnknown"
		}
		// the event appended by the last statements (op, err := m.attributeSignAndAddEvent(...); return op, err)
		finalVerdict := func(fd *ast.FuncDecl) string {
			v := "VUnknown"
			ast.Inspect(fd.Body, func(n ast.Node) bool {
				c, ok := n.(*ast.CallExpr)
				if !ok {
					return true
				}
				fn := exprString(c.Fun)
				if strings.HasSuffix(fn, "attributeSignAndAddEvent") || strings.HasSuffix(fn, "contactAction") {
					for _, a := range c.Args {
						if num, ok := evNum[last(exprString(a))]; ok {
							v = "VAppend " + num
						}
					}
				}
				return true
			})
			return v
		}
		ops := []struct{ fn, coq string }{
			{"ContactRequestOutgoingEnqueue", "KEnq"}, {"ContactRequestOutgoingSent", "KSent"}, {"ContactRequestIncomingReceived", "KRecv"},
			{"ContactRequestIncomingDiscard", "KDisc"}, {"ContactRequestIncomingAccept", "KAcc"}, {"ContactBlock", "KBlock"}, {"ContactUnblock", "KUnblock"},
		}
		var rows []string
		var pre []string
		for _, op := range ops {
			fd := funcDecl(f, "MetadataStore", op.fn)
			verdict := map[string]string{}
			strictFormat, lenientFormat, refusesSelf := false, false, false
			if fd != nil && fd.Body != nil {
				fin := finalVerdict(fd)
				for _, st := range fd.Body.List {
					switch x := st.(type) {
					case *ast.IfStmt:
						cond := exprString(x.Cond)
						if x.Init != nil {
							if as, ok := x.Init.(*ast.AssignStmt); ok && len(as.Rhs) == 1 {
								init := exprString(as.Rhs[0])
								if strings.Contains(init, "CheckFormat(") {
									if strings.Contains(init, "AllowMissingRDVSeed") {
										lenientFormat = true
									} else {
										strictFormat = true
									}
								}
							}
						}
						if strings.Contains(cond, "IsSamePK(") || (strings.Contains(cond, ".Equals(pk)") && strings.Contains(cond, "accountPublicKey")) {
							if len(x.Body.List) > 0 {
								if r, ok := x.Body.List[len(x.Body.List)-1].(*ast.ReturnStmt); ok && verdictOf(r) == "VRefuse" {
									refusesSelf = true
								}
							}
						}
						// if [!]m.checkContactStatus(pk, S1, S2...) { return ... }
						neg := false
						ce := x.Cond
						if u, ok := ce.(*ast.UnaryExpr); ok && u.Op == token.NOT {
							neg, ce = true, u.X
						}
						c, ok := ce.(*ast.CallExpr)
						if !ok || !strings.HasSuffix(exprString(c.Fun), "checkContactStatus") || len(x.Body.List) == 0 {
							continue
						}
						r, _ := x.Body.List[len(x.Body.List)-1].(*ast.ReturnStmt)
						v := verdictOf(r)
						listed := map[string]bool{}
						for _, a := range c.Args[1:] {
							if n, ok := stNum[last(exprString(a))]; ok {
								listed[n] = true
							}
						}
						for _, s := range states {
							if listed[s] != neg {
								if _, done := verdict[s]; !done {
									verdict[s] = v
								}
							}
						}
					case *ast.SwitchStmt:
						if x.Tag == nil || !strings.HasSuffix(strings.SplitN(exprString(x.Tag), "(", 2)[0], "getContactStatus") {
							continue
						}
						var def string
						hasDef := false
						for _, cl := range x.Body.List {
							cc := cl.(*ast.CaseClause)
							v := "" // empty body: falls out of the switch to the final append
							if len(cc.Body) > 0 {
								if r, ok := cc.Body[len(cc.Body)-1].(*ast.ReturnStmt); ok {
									v = verdictOf(r)
								} else {
									v = "VUnknown"
								}
							}
							if cc.List == nil {
								def, hasDef = v, true
								continue
							}
							for _, e := range cc.List {
								if n, ok := stNum[last(exprString(e))]; ok {
									if _, done := verdict[n]; !done {
										if v == "" {
											verdict[n] = fin
										} else {
											verdict[n] = v
										}
									}
								}
							}
						}
						if hasDef {
							for _, s := range states {
								if _, done := verdict[s]; !done {
									if def == "" {
										verdict[s] = fin
									} else {
										verdict[s] = def
									}
								}
							}
						}
					}
				}
				for _, s := range states {
					if _, done := verdict[s]; !done {
						verdict[s] = fin
					}
				}
			}
			var cells []string
			for _, s := range states {
				v := verdict[s]
				if v == "" {
					v = "VUnknown"
				}
				cells = append(cells, fmt.Sprintf("(%s, %s)", s, v))
			}
			rows = append(rows, fmt.Sprintf("(%s, [%s])", op.coq, strings.Join(cells, "; ")))
			pre = append(pre, fmt.Sprintf("(%s, (%v, %v, %v))", op.coq, strictFormat, lenientFormat, refusesSelf))
		}
		body := "Inductive opkind := KEnq | KSent | KRecv | KDisc | KAcc | KBlock | KUnblock.\n"
		body += "Inductive verdict := VAppend (event_type : N) | VSent | VRefuse | VUnknown.\n\n"
		body += "(* store_metadata.go: per contact operation and contact state (ContactState number), what the guards do *)\n"
		body += "Definition guard_table : list (opkind * list (N * verdict)) :=\n  [" + strings.Join(rows, ";\n   ") + "].\n\n"
		body += "(* per operation: (CheckFormat without options, CheckFormat allowing a missing seed, own key refused) *)\n"
		body += "Definition pre_checks : list (opkind * (bool * bool * bool)) :=\n  [" + strings.Join(pre, ";\n   ") + "].\n"
		write("Contacts.v", body)
	})
}
